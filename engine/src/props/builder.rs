//! Scenario-based checks shared by C03 (builder_tx), C05, C06, C07 (built outputs), C09, C10, C16 (rebuild), C18.
use crate::cbor::{self, Kind, Node};
use crate::ledger::*;
use crate::runner::*;
use crate::scenario::{self, FeeRequest, Focus, Outcome, Purpose};
use crate::tape::*;
use cardano_serialization_lib as csl;
use num_bigint::BigInt as NBig;
use std::collections::{BTreeMap, BTreeSet};

pub fn describe(o: &Outcome) -> String {
    format!(
        "params(fee {}x+{}, cpb {}, deposits key {} pool {}, max value {} tx {}, pure_change {}, no_burn {}) ops [{}] balancing {} ({}) errors {:?}",
        o.world.params.fee_a,
        o.world.params.fee_b,
        o.world.params.cpb,
        o.world.params.key_deposit,
        o.world.params.pool_deposit,
        o.world.params.max_value_size,
        o.world.params.max_tx_size,
        o.world.params.prefer_pure_change,
        o.world.params.do_not_burn_extra_change,
        o.ops.join(", "),
        o.balancing,
        if o.balancing_ok { "Ok" } else { "Err" },
        o.errors.iter().take(3).collect::<Vec<_>>()
    )
}

/// common labels describing what the generator produced
pub fn label_outcome(ctx: &mut Ctx, o: &Outcome) {
    let mut kinds: BTreeSet<String> = BTreeSet::new();
    for op in &o.ops {
        kinds.insert(op.split('(').next().unwrap_or("").to_string());
    }
    for k in kinds {
        ctx.label(&format!("op:{}", k));
    }
    ctx.label(&format!("balancing:{}:{}", o.balancing.split('(').next().unwrap_or(""), if o.balancing_ok { "ok" } else { "err" }));
    ctx.label(if o.tx.is_some() { "build_tx:ok" } else { "build_tx:err" });
    if o.tx.is_none() {
        if let Some(e) = &o.tx_error {
            let short: String = e.chars().filter(|c| !c.is_ascii_digit()).take(48).collect();
            ctx.label(&format!("build_tx-error:{}", short));
        }
    }
    for p in &o.panics {
        let short: String = p.chars().filter(|c| !c.is_ascii_digit()).take(70).collect();
        ctx.label(&format!("panic:{}", short));
    }
}

pub fn change_layout(o: &Outcome) -> &'static str {
    // outputs added by balancing = outputs in the body beyond the requested ones
    let requested = o.ops.iter().filter(|x| x.starts_with("output(")).count();
    let built = o.body.as_ref().map(|b| b.outputs().len()).unwrap_or(0);
    match built.saturating_sub(requested) {
        0 => "none",
        1 => "one",
        _ => "several",
    }
}

fn tx_bytes_variants(o: &Outcome) -> Vec<(&'static str, Vec<u8>)> {
    let mut v = Vec::new();
    if let Some(t) = &o.tx {
        v.push(("build_tx", t.to_bytes()));
    } else if let Some(t) = &o.tx_unsafe {
        v.push(("build_tx_unsafe", t.to_bytes()));
    }
    v
}

// ---------------------------------------------------------------------------------------------
// C05

pub fn c05_case(ctx: &mut Ctx, tape: &[u8]) -> CaseResult {
    let mut focus = Focus::general();
    focus.many_assets = tape.first().map(|b| b % 4 == 0).unwrap_or(false);
    focus.scripts = 40;
    let o = match scenario::run(tape, focus) {
        Some(o) => o,
        None => {
            ctx.reject();
            return Ok(());
        }
    };
    label_outcome(ctx, &o);
    // a panic inside balancing / building is neither a success report nor an error report
    for p in &o.panics {
        if p.starts_with("add_change") || p.starts_with("add_inputs_from") || p.starts_with("build") {
            let cause: String = p.chars().filter(|c| !c.is_ascii_digit()).take(90).collect();
            fail!(format!("balance/panic/{}", cause), "{}; {}", p, describe(&o))
        }
    }
    if !o.balancing_ok {
        return Ok(());
    }
    // every way of producing a transaction after a successful balancing call
    let mut produced = 0;
    let mut bodies: Vec<(&str, Vec<u8>)> = Vec::new();
    if let Some(t) = &o.tx {
        bodies.push(("build_tx", t.body().to_bytes()));
    }
    if let Some(b) = &o.body {
        bodies.push(("build", b.to_bytes()));
    }
    if let Some(t) = &o.tx_unsafe {
        bodies.push(("build_tx_unsafe", t.body().to_bytes()));
    }
    let mut first_body: Option<Vec<u8>> = None;
    for (how, bb) in &bodies {
        produced += 1;
        let node = match cbor::parse_document(bb) {
            Ok(n) => n,
            Err(e) => fail!("balance/body-malformed", "{}: {} {}", how, e, describe(&o)),
        };
        if let Err(e) = check_balance(&node, bb, &o.world) {
            let kind = if e.starts_with("lovelace") { "lovelace" } else if e.starts_with("asset") { "asset" } else { "other" };
            fail!(format!("balance/not-preserved/{}/{}", kind, how), "{} produced a transaction that does not preserve value: {}; change layout {}; {}; body={}", how, e, change_layout(&o), describe(&o), hex::encode(&bb[..bb.len().min(400)]))
        }
        if first_body.is_none() {
            first_body = Some(bb.clone());
        }
    }
    if produced == 0 {
        ctx.label("balanced-but-not-built");
        return Ok(());
    }
    // non-triviality
    let mut feats = 0;
    let has = |p: &str| o.ops.iter().any(|x| x.starts_with(p));
    if o.ops.iter().any(|x| x.contains("assets")) {
        feats += 1;
        ctx.label("feature:multi-asset");
    }
    if has("mint(") {
        feats += 1;
        ctx.label("feature:mint-or-burn");
    }
    if has("cert(") || has("proposal(") {
        feats += 1;
        ctx.label("feature:deposit-or-refund");
    }
    if has("withdrawal(") {
        feats += 1;
        ctx.label("feature:withdrawal");
    }
    if has("donation(") {
        feats += 1;
        ctx.label("feature:donation");
    }
    let layout = change_layout(&o);
    ctx.label(&format!("change:{}", layout));
    if layout == "several" {
        feats += 1;
    }
    if feats >= 2 {
        ctx.nontrivial(fp64(first_body.as_ref().unwrap()));
        ctx.sample(&format!("c05:{}", layout), || describe(&o));
    }
    Ok(())
}

// ---------------------------------------------------------------------------------------------
// C06 / C07(3) / C18 size / C03 builder_tx / C09 / C10: all on the transaction from build_tx()

pub struct Built<'a> {
    pub o: &'a Outcome,
    pub bytes: Vec<u8>,
}

pub fn built_tx(ctx: &mut Ctx, tape: &[u8], focus: Focus) -> Option<Outcome> {
    let o = scenario::run(tape, focus)?;
    label_outcome(ctx, &o);
    Some(o)
}

/// C08, combined entry points: a builder history balanced through add_inputs_from_and_change(_with_collateral_return)
/// must end with inputs that pay for the outputs and the minimum fee of the final transaction. That is exactly C06's
/// judgement of "the fee the builder set" (ledger minimum of the really signed transaction), restricted to the histories
/// that went through a select-and-change call; failures of other histories are C06's own business and are not reported here.
pub fn c08_combined_case(ctx: &mut Ctx, tape: &[u8]) -> CaseResult {
    match c06_case(ctx, tape) {
        Ok(()) => Ok(()),
        Err(f) => {
            let through_selection = f.detail.contains("balancing add_inputs_from") || f.detail.contains("balancing (add_inputs_from");
            if through_selection && f.sig.starts_with("fee/") {
                Err(Failure::new(format!("combined/{}", f.sig), f.detail))
            } else {
                Ok(())
            }
        }
    }
}

pub fn c06_case(ctx: &mut Ctx, tape: &[u8]) -> CaseResult {
    let mut focus = Focus::general();
    focus.scripts = 60;
    let o = match built_tx(ctx, tape, focus) {
        Some(o) => o,
        None => {
            ctx.reject();
            return Ok(());
        }
    };
    let tx = match &o.tx {
        Some(t) => t,
        None => {
            // build_tx() refused. When balancing reported success and the caller did not fix the fee, the fee in the
            // builder is the one the builder set: it must still cover the transaction build_tx_unsafe() hands out
            // (a refusal "Fee is less than the minimum fee" here means the builder set too little itself).
            if let (true, Some(t)) = (o.balancing_ok && !matches!(o.fee_request, FeeRequest::Exactly(_)), &o.tx_unsafe) {
                let bytes = t.to_bytes();
                if let Ok(view) = TxView::parse(&bytes) {
                    let fee = fee_of(view.body());
                    if let Ok((size, n_keys, n_boot)) = signed_size(&view, &o) {
                        let min = min_fee(&view, size, &o);
                        ctx.label("refused-by-build_tx:fee-set-by-builder-checked");
                        ensure!(
                            NBig::from(fee) >= min,
                            "fee/set-by-balancing-below-ledger-minimum",
                            "balancing ({}) reported success and set fee {}, but the ledger minimum is {} for the transaction of {} bytes once signed by {} keys and {} bootstrap witnesses (build_tx: {:?}); {}",
                            o.balancing, fee, min, size, n_keys, n_boot, o.tx_error, describe(&o)
                        );
                    }
                }
            }
            return Ok(());
        }
    };
    let bytes = tx.to_bytes();
    let view = TxView::parse(&bytes).map_err(|e| Failure::new("fee/tx-unreadable", format!("{} {}", e, describe(&o))))?;
    let fee = fee_of(view.body());
    // fee request policy
    match &o.fee_request {
        FeeRequest::Exactly(f) => ensure!(fee == *f as u128, "fee/fixed-fee-not-used-exactly", "set_fee({}) but the built fee is {}; {}", f, fee, describe(&o)),
        FeeRequest::NotLess(f) => ensure!(fee >= *f as u128, "fee/requested-minimum-not-honoured", "set_min_fee({}) but the built fee is {}; {}", f, fee, describe(&o)),
        FeeRequest::None => {}
    }
    let (size, n_keys, n_boot) = signed_size(&view, &o).map_err(|e| Failure::new("engine/signed-size", e))?;
    let min = min_fee(&view, size, &o);
    ensure!(
        NBig::from(fee) >= min,
        "fee/below-ledger-minimum",
        "built fee {} < ledger minimum {} for the transaction of {} bytes once signed by {} keys and {} bootstrap witnesses (ref scripts {} bytes); {}",
        fee,
        min,
        size,
        n_keys,
        n_boot,
        ref_scripts_size(view.body(), view.bytes, &o.world),
        describe(&o)
    );
    ctx.label(&format!("signers:{}", n_keys.min(7)));
    if n_boot > 0 {
        ctx.label("witness-kind:bootstrap");
    }
    let has_native = o.script_items.iter().any(|i| !i.plutus);
    let has_plutus = o.script_items.iter().any(|i| i.plutus);
    if has_native {
        ctx.label("witness-kind:native-script");
    }
    if has_plutus {
        ctx.label("witness-kind:plutus");
    }
    let kinds = (n_keys > 0) as u32 + (n_boot > 0) as u32 + has_native as u32 + has_plutus as u32;
    let near = |v: u128| [1u128 << 16, 1 << 32, 1 << 8, 24].iter().any(|b| v + 3 >= *b && v <= *b + 3);
    let boundary = near(fee) || view.body().map_get(1).and_then(|n| n.as_array()).map(|outs| outs.iter().any(|x| output_view(x).map(|v| near(v.value.0 as u128)).unwrap_or(false))).unwrap_or(false);
    if boundary {
        ctx.label("amount-near-width-boundary");
    }
    ctx.label(&format!("change:{}", change_layout(&o)));
    if (n_keys + n_boot) >= 1 && (boundary || kinds >= 2) {
        ctx.nontrivial(fp64(&bytes));
        ctx.sample(&format!("c06:{}kinds", kinds), || format!("fee {} >= ledger min {} (size {} with {} vkeys, {} bootstraps); {}", fee, min, size, n_keys, n_boot, describe(&o)));
    }
    Ok(())
}

/// C07 sub-check (3): outputs and collateral return of built transactions, transaction size
pub fn c07_built_case(ctx: &mut Ctx, tape: &[u8]) -> CaseResult {
    let mut focus = Focus::general();
    focus.many_assets = tape.first().map(|b| b % 3 == 0).unwrap_or(false);
    let o = match built_tx(ctx, tape, focus) {
        Some(o) => o,
        None => {
            ctx.reject();
            return Ok(());
        }
    };
    let tx = match &o.tx {
        Some(t) => t,
        None => return Ok(()),
    };
    let bytes = tx.to_bytes();
    let view = TxView::parse(&bytes).map_err(|e| Failure::new("built/tx-unreadable", e))?;
    let p = &o.world.params;
    let requested = o.ops.iter().filter(|x| x.starts_with("output(")).count();
    let mut nontrivial = false;
    let mut check_out = |n: &Node, what: &str, idx: usize| -> CaseResult {
        let ov = output_view(n).ok_or_else(|| Failure::new("built/output-unreadable", what.to_string()))?;
        let size = n.end - n.start;
        let bound = p.cpb as u128 * (160 + size as u128);
        let created = what == "collateral-return" || idx >= requested;
        ensure!(
            ov.value.0 as u128 >= bound,
            format!("built/output-below-min-ada/{}", if what == "collateral-return" { "collateral-return" } else if created { "change" } else { "requested" }),
            "{} #{} of {} bytes carries {} lovelace, the minimum is {} ({} per byte); {}",
            what, idx, size, ov.value.0, bound, p.cpb, describe(&o)
        );
        let vsize = ov.value_node.end - ov.value_node.start;
        ensure!(vsize <= p.max_value_size as usize, format!("built/value-too-large/{}", if created { "created" } else { "requested" }), "{} #{}: value of {} bytes exceeds max_value_size {}; {}", what, idx, vsize, p.max_value_size, describe(&o));
        if !ov.value.1.is_empty() || n.as_map().map(|m| m.len() > 2).unwrap_or(false) {
            nontrivial = true;
        }
        Ok(())
    };
    if let Some(outs) = view.body().map_get(1).and_then(|n| n.as_array()) {
        for (i, x) in outs.iter().enumerate() {
            check_out(x, "output", i)?;
        }
    }
    // collateral return created by a helper (the raw setter performs no admission)
    if o.collateral_helper.is_some() {
        if let Some(cr) = view.body().map_get(16) {
            check_out(cr, "collateral-return", 0)?;
        }
    }
    let (size, _, _) = signed_size(&view, &o).map_err(|e| Failure::new("engine/signed-size", e))?;
    ensure!(size <= p.max_tx_size as usize, "built/transaction-too-large", "the signed transaction has {} bytes, max_tx_size is {}; {}", size, p.max_tx_size, describe(&o));
    // second pass (every other case): the same history under a limit 1..=48 bytes below the size just measured. The
    // builder has to refuse; if it builds anyway the transaction it returns is larger than the configured maximum.
    let pick = fp64(tape);
    if pick & 1 == 1 && size > 60 {
        let d = 1 + ((pick >> 8) % 48) as usize;
        let mut f2 = focus;
        f2.max_tx_size_override = Some((size - d) as u32);
        if let Some(o2) = scenario::run(tape, f2) {
            ctx.label("tight-size-limit:second-pass");
            // every entry point that hands out a whole transaction: build_tx and build_tx_unsafe ("unsafe" skips the
            // balance / fee / witness validation, not the size limit: it goes through build() like the others)
            let mut any = false;
            for (how, t2) in [("build_tx", &o2.tx), ("build_tx_unsafe", &o2.tx_unsafe)] {
                if let Some(t2) = t2 {
                    let b2 = t2.to_bytes();
                    if let Ok(v2) = TxView::parse(&b2) {
                        if let Ok((s2, _, _)) = signed_size(&v2, &o2) {
                            any = true;
                            ctx.label(&format!("tight-size-limit:built-anyway:{}", how));
                            ensure!(
                                s2 <= size - d,
                                if how == "build_tx" { "built/transaction-too-large/limit-just-below-its-size".to_string() } else { format!("built/transaction-too-large/limit-just-below-its-size/{}", how) },
                                "with max_tx_size = {} (the same history built {} signed bytes under a loose limit) {} returns a transaction of {} signed bytes; {}",
                                size - d, size, how, s2, describe(&o2)
                            );
                        }
                    }
                }
            }
            if !any {
                ctx.label("tight-size-limit:refused");
            }
        }
    }
    ctx.label(&format!("change:{}", change_layout(&o)));
    if nontrivial {
        ctx.nontrivial(fp64(&bytes));
        ctx.sample("c07:built", || describe(&o));
    }
    Ok(())
}

pub fn c03_builder_case(ctx: &mut Ctx, tape: &[u8]) -> CaseResult {
    let mut focus = Focus::general();
    focus.governance = 70;
    focus.alt_datums = false;
    let o = match built_tx(ctx, tape, focus) {
        Some(o) => o,
        None => {
            ctx.reject();
            return Ok(());
        }
    };
    for (how, bytes) in tx_bytes_variants(&o) {
        let r = super::c03::check_value(ctx, "BuiltTransaction", "transaction", &bytes, true, true, how);
        if let Err(mut f) = r {
            f.detail = format!("{}; {}", f.detail, describe(&o));
            return Err(f);
        }
    }
    Ok(())
}

fn langs_in_use(o: &Outcome) -> BTreeSet<u8> {
    o.script_items.iter().filter(|i| i.plutus).map(|i| o.world.plutus[i.script_index].language_version().to_bytes()[0]).collect()
}

pub fn c09_case(ctx: &mut Ctx, tape: &[u8]) -> CaseResult {
    let mut focus = Focus::general();
    focus.scripts = 150;
    focus.assets = 30;
    let o = match built_tx(ctx, tape, focus) {
        Some(o) => o,
        None => {
            ctx.reject();
            return Ok(());
        }
    };
    let tx = match &o.tx {
        Some(t) => t,
        None => return Ok(()),
    };
    let bytes = tx.to_bytes();
    let view = TxView::parse(&bytes).map_err(|e| Failure::new("hash/tx-unreadable", e))?;
    // auxiliary data hash
    let aux = view.aux();
    let body7 = view.body().map_get(7).and_then(|n| n.as_bytes()).map(|b| b.to_vec());
    if aux.is_null() {
        ensure!(body7.is_none(), "hash/auxiliary-hash-without-auxiliary-data", "{}", describe(&o));
    } else {
        let want = blake2b256(view.slice(aux)).to_vec();
        ensure!(body7.as_ref() == Some(&want), "hash/auxiliary-data-hash-mismatch", "body auxiliary_data_hash {:?} but blake2b256(attached auxiliary data) = {}; {}", body7.map(hex::encode), hex::encode(&want), describe(&o));
        ctx.label("auxiliary-data-present");
    }
    // script integrity hash
    let body11 = view.body().map_get(11).and_then(|n| n.as_bytes()).map(|b| b.to_vec());
    let inputs_now = set_items(view.body().map_get(0).unwrap_or(view.body())).len();
    if o.hash_calculated && inputs_now != o.inputs_at_hash {
        // a combined select-and-change call added inputs after the hash was calculated: spend pointers moved,
        // the property only speaks about a hash computed after the last script-relevant change
        ctx.label("inputs-added-after-hash(skipped)");
    }
    if o.hash_calculated && inputs_now == o.inputs_at_hash {
        let langs = langs_in_use(&o);
        let want = script_integrity_hash(&view, &langs, &o.world.cost_model_values);
        match (&body11, want) {
            (Some(got), Some(w)) => ensure!(
                got[..] == w[..],
                "hash/script-data-hash-mismatch",
                "body script_data_hash {} but the ledger derives {} from the emitted witness set (redeemers {}, datums {}, languages {:?}); {}",
                hex::encode(got),
                hex::encode(w),
                view.wits().map_get(5).map(|n| hex::encode(view.slice(n))).unwrap_or_default().chars().take(120).collect::<String>(),
                view.wits().map_get(4).map(|n| hex::encode(view.slice(n))).unwrap_or_default().chars().take(120).collect::<String>(),
                langs,
                describe(&o)
            ),
            (None, None) => {}
            (Some(got), None) => fail!("hash/script-data-hash-without-script-data", "body carries {} but the witness set has neither redeemers nor datums; {}", hex::encode(got), describe(&o)),
            (None, Some(_)) => fail!("hash/script-data-hash-missing", "calc_script_data_hash succeeded, the witness set has script data, the body has no hash; {}", describe(&o)),
        }
        let reds = redeemer_list(&view).len();
        let dats = view.wits().map_get(4).map(|n| set_items(n).len()).unwrap_or(0);
        ctx.label(&format!("redeemers:{}", reds.min(5)));
        ctx.label(&format!("datums:{}", dats.min(4)));
        ctx.label(&format!("languages:{}", langs.len()));
        if !o.extra_datums.is_empty() {
            ctx.label("extra-datums");
        }
        if reds >= 2 || (reds >= 1 && dats >= 1) || (reds == 0 && dats >= 1) {
            ctx.nontrivial(fp64(&bytes));
            ctx.sample(&format!("c09:{}red{}dat{}lang", reds.min(3), dats.min(3), langs.len()), || describe(&o));
        }
    }
    Ok(())
}

pub fn c10_case(ctx: &mut Ctx, tape: &[u8]) -> CaseResult {
    let mut focus = Focus::general();
    focus.scripts = 200;
    focus.certs = 90;
    focus.assets = 20;
    focus.max_ops = 18;
    focus.re_register = true;
    // half of the cases: bursts of one script purpose, so that several reward / vote / certificate / proposal
    // pointers have to be told apart in one transaction
    focus.bursts = true;
    let o = match built_tx(ctx, tape, focus) {
        Some(o) => o,
        None => {
            ctx.reject();
            return Ok(());
        }
    };
    let tx = match &o.tx {
        Some(t) => t,
        None => return Ok(()),
    };
    let bytes = tx.to_bytes();
    let view = TxView::parse(&bytes).map_err(|e| Failure::new("pointer/tx-unreadable", e))?;
    let reds = redeemer_list(&view);
    let mut seen: BTreeSet<(u64, u64)> = BTreeSet::new();
    let purpose_name = ["spend", "mint", "cert", "reward", "vote", "propose"];
    for (tag, index, marker) in &reds {
        if let Some(m) = marker {
            ensure!(!o.unlocked_markers.contains(m), "pointer/redeemer-on-item-not-script-locked/cert", "the builder accepted a Plutus witness for a certificate whose authorising credential is a key, and emits its redeemer ({}, {}); {}", tag, index, describe(&o));
        }
        ensure!(seen.insert((*tag, *index)), "pointer/two-redeemers-share-a-pointer", "({}, {}) occurs twice; {}", tag, index, describe(&o));
        let item = o.script_items.iter().find(|it| it.marker == *marker && marker.is_some());
        let item = match item {
            Some(i) => i,
            None => fail!("pointer/redeemer-without-item", "a redeemer with payload {:?} was attached to no item of the scenario; {}", marker, describe(&o)),
        };
        ensure!(purpose_tag(&item.purpose) == *tag, format!("pointer/wrong-purpose/{}", purpose_name[(*tag as usize).min(5)]), "redeemer {:?} has tag {} but was attached to a {:?} item; {}", marker, tag, item.purpose, describe(&o));
        let targets = resolve(&view, *tag, *index);
        ensure!(!targets.is_empty(), format!("pointer/points-outside/{}", purpose_name[(*tag as usize).min(5)]), "({}, {}) designates nothing in the built body; {}", tag, index, describe(&o));
        // known root cause gets its own signature: reward redeemers indexed by insertion position
        // (= position in the emitted, insertion-ordered map) instead of reward-account order
        let reward_insertion_order = *tag == 3
            && view.body().map_get(5).and_then(|n| n.as_map()).and_then(|m| m.get(*index as usize)).and_then(|(k, _)| k.as_bytes()).map(|b| b == &item.target[..]).unwrap_or(false);
        ensure!(
            targets.contains(&item.target),
            if reward_insertion_order { "pointer/reward-index-is-insertion-position".to_string() } else { format!("pointer/designates-another-item/{}", purpose_name[(*tag as usize).min(5)]) },
            "redeemer {:?} was attached to {} {} but its pointer ({}, {}) designates {}; {}",
            marker,
            purpose_name[(*tag as usize).min(5)],
            hex::encode(&item.target[..item.target.len().min(40)]),
            tag,
            index,
            targets.iter().map(|t| hex::encode(&t[..t.len().min(40)])).collect::<Vec<_>>().join(" or "),
            describe(&o)
        );
    }
    // every Plutus item of the scenario that made it into the body has its redeemer
    let mut out_of_order = false;
    for p in [Purpose::Spend, Purpose::Mint, Purpose::Cert, Purpose::Reward] {
        let items: Vec<&scenario::ScriptItem> = o.script_items.iter().filter(|i| i.purpose == p).collect();
        if items.len() >= 2 {
            let targets: Vec<&Vec<u8>> = items.iter().map(|i| &i.target).collect();
            let mut sorted = targets.clone();
            sorted.sort();
            if sorted != targets {
                out_of_order = true;
                ctx.label(&format!("inserted-out-of-sorted-order:{:?}", p));
            }
        }
    }
    ctx.label(&format!("redeemers:{}", reds.len().min(8)));
    if reds.len() >= 2 && out_of_order {
        ctx.nontrivial(fp64(&bytes));
        ctx.sample("c10", || format!("pointers {:?}; {}", reds, describe(&o)));
    }
    Ok(())
}

pub fn c18_case(ctx: &mut Ctx, tape: &[u8]) -> CaseResult {
    let mut focus = Focus::general();
    focus.scripts = 140;
    focus.certs = 90;
    focus.governance = 70;
    focus.assets = 20;
    let o = match built_tx(ctx, tape, focus) {
        Some(o) => o,
        None => {
            ctx.reject();
            return Ok(());
        }
    };
    let tx = match &o.tx {
        Some(t) => t,
        None => return Ok(()),
    };
    let bytes = tx.to_bytes();
    let view = TxView::parse(&bytes).map_err(|e| Failure::new("witness/tx-unreadable", e))?;
    let wits = view.wits();
    // scripts present in the witness set by hash
    let mut native_hashes: Vec<Vec<u8>> = Vec::new();
    if let Some(n) = wits.map_get(1) {
        for s in set_items(n) {
            let mut pre = vec![0u8];
            pre.extend_from_slice(view.slice(s));
            let mut out = [0u8; 28];
            cryptoxide::blake2b::Blake2b::blake2b(&mut out, &pre, &[]);
            native_hashes.push(out.to_vec());
        }
    }
    let mut plutus_hashes: Vec<Vec<u8>> = Vec::new();
    for (key, prefix) in [(3u64, 1u8), (6, 2), (7, 3)] {
        if let Some(n) = wits.map_get(key) {
            for s in set_items(n) {
                let mut pre = vec![prefix];
                pre.extend_from_slice(s.as_bytes().unwrap_or(&[]));
                let mut out = [0u8; 28];
                cryptoxide::blake2b::Blake2b::blake2b(&mut out, &pre, &[]);
                plutus_hashes.push(out.to_vec());
            }
        }
    }
    let ref_inputs = outpoints(view.body(), 18, view.bytes);
    let inputs = outpoints(view.body(), 0, view.bytes);
    let datum_slices: Vec<Vec<u8>> = wits.map_get(4).map(|n| set_items(n).iter().map(|d| view.slice(d).to_vec()).collect()).unwrap_or_default();
    let reds = redeemer_list(&view);
    // items that are part of the built transaction
    let purpose_name = |p: &Purpose| format!("{:?}", p).to_lowercase();
    let mut needed_scripts: BTreeSet<Vec<u8>> = BTreeSet::new();
    let mut needed_datums: BTreeSet<Vec<u8>> = BTreeSet::new();
    let mut shared = false;
    for it in &o.script_items {
        let have = if it.plutus { &plutus_hashes } else { &native_hashes };
        let in_wits = have.iter().filter(|h| **h == it.script_hash).count();
        match &it.script_ref_input {
            Some(r) => {
                // supplied by reference: the reference input must be declared (or be a spent input when de-duplication is on)
                let declared = ref_inputs.contains(r) || inputs.contains(r);
                ensure!(declared, format!("witness/reference-input-not-declared/{}", purpose_name(&it.purpose)), "the {} item's script is supplied by reference input {} which is not among the body's reference inputs; {}", purpose_name(&it.purpose), hex::encode(r), describe(&o));
            }
            None => {
                ensure!(in_wits >= 1, format!("witness/script-missing/{}/{}", purpose_name(&it.purpose), if it.plutus { "plutus" } else { "native" }), "the {} item's script {} is in no witness-set field; {}", purpose_name(&it.purpose), hex::encode(&it.script_hash), describe(&o));
                needed_scripts.insert(it.script_hash.clone());
            }
        }
        ensure!(in_wits <= 1, "witness/script-emitted-twice", "script {} occurs {} times in the witness set; {}", hex::encode(&it.script_hash), in_wits, describe(&o));
        if it.plutus {
            let n = reds.iter().filter(|r| r.2 == it.marker).count();
            ensure!(n == 1, format!("witness/redeemer-count/{}", purpose_name(&it.purpose)), "the {} item has {} redeemers; {}", purpose_name(&it.purpose), n, describe(&o));
            // ... and it is the item's redeemer in the ledger's sense: exactly one redeemer's pointer designates the item
            let tag = purpose_tag(&it.purpose);
            let n_ptr = reds.iter().filter(|r| r.0 == tag && resolve(&view, r.0, r.1).contains(&it.target)).count();
            if n_ptr != 1 {
                // reward redeemers indexed by insertion position are C10's known finding, not a C18 matter
                let own_index = reds.iter().find(|r| r.2 == it.marker).map(|r| r.1).unwrap_or(u64::MAX);
                let reward_insertion_order = tag == 3
                    && view.body().map_get(5).and_then(|n| n.as_map()).and_then(|m| m.get(own_index as usize)).and_then(|(k, _)| k.as_bytes()).map(|b| b == &it.target[..]).unwrap_or(false);
                if reward_insertion_order {
                    ctx.label("c18:reward-pointer-by-insertion-position(C10 finding)");
                } else {
                    fail!(format!("witness/redeemer-pointer-count/{}", purpose_name(&it.purpose)), "{} redeemers point at the {} item {} (its own redeemer sits at index {}); {}", n_ptr, purpose_name(&it.purpose), hex::encode(&it.target[..it.target.len().min(40)]), own_index, describe(&o));
                }
            }
            if let Some(d) = &it.witness_datum {
                let c = datum_slices.iter().filter(|x| *x == d).count();
                ensure!(c == 1, "witness/datum-count", "datum {} occurs {} times in the witness set (1 expected); {}", hex::encode(&d[..d.len().min(40)]), c, describe(&o));
                needed_datums.insert(d.clone());
            }
            if let Some(r) = &it.datum_ref_input {
                ensure!(ref_inputs.contains(r), "witness/datum-reference-input-not-declared", "{}", describe(&o));
            }
        }
        if o.script_items.iter().filter(|x| x.script_hash == it.script_hash).count() >= 2 {
            shared = true;
        }
    }
    // nothing superfluous
    for h in native_hashes.iter().chain(plutus_hashes.iter()) {
        let aux_script = false;
        ensure!(needed_scripts.contains(h) || aux_script, "witness/superfluous-script", "script {} is in the witness set but no item needs it by value; {}", hex::encode(h), describe(&o));
    }
    for d in &datum_slices {
        ensure!(needed_datums.contains(d) || o.extra_datums.contains(d), "witness/superfluous-datum", "datum {} is needed by no item and was not added as an extra datum; {}", hex::encode(&d[..d.len().min(40)]), describe(&o));
    }
    for (_, _, m) in &reds {
        if let Some(mk) = m {
            ensure!(!o.unlocked_markers.contains(mk), "witness/redeemer-for-item-not-script-locked/cert", "the builder accepted a Plutus witness for a certificate whose authorising credential is a key and emits its redeemer; {}", describe(&o));
        }
        ensure!(o.script_items.iter().any(|i| i.marker == *m), "witness/superfluous-redeemer", "{}", describe(&o));
    }
    // a certificate locked by a script (the ledger's rule) that plain add() let in has no script in the transaction
    if let Some(certs) = view.body().map_get(4) {
        for c in set_items(certs) {
            let cb = view.slice(c).to_vec();
            ensure!(!o.unwitnessed_locked.contains(&cb), "witness/script-locked-certificate-admitted-without-witness", "certificate {} is authorised by a script credential, add() accepted it without a script witness after the script route was refused; {}", hex::encode(&cb), describe(&o));
        }
    }
    // exact size prediction
    let (size, n_keys, n_boot) = signed_size(&view, &o).map_err(|e| Failure::new("engine/signed-size", e))?;
    if let Some(full) = o.full_size {
        ensure!(full >= size, "size/prediction-below-signed-size", "full_size() = {} but the transaction signed by the {} required keys and {} bootstrap witnesses has {} bytes (a signer is forgotten); {}", full, n_keys, n_boot, size, describe(&o));
        ensure!(full - size < 101, "size/prediction-exceeds-by-a-key-witness", "full_size() = {} exceeds the really signed size {} ({} keys, {} bootstraps) by {} >= one key witness (a signer is counted twice); {}", full, size, n_keys, n_boot, full - size, describe(&o));
    }
    ctx.label(&format!("signers:{}", n_keys.min(7)));
    let any_ref = o.script_items.iter().any(|i| i.script_ref_input.is_some());
    if any_ref {
        ctx.label("reference-script");
    }
    if shared {
        ctx.label("script-used-twice");
    }
    if shared || any_ref || n_keys >= 2 {
        ctx.nontrivial(fp64(&bytes));
        ctx.sample("c18", || format!("{} keys, {} bootstraps, full_size {:?}, signed {}; {}", n_keys, n_boot, o.full_size, size, describe(&o)));
    }
    Ok(())
}

/// C16 rebuild determinism on scenarios
pub fn c16_rebuild_case(ctx: &mut Ctx, tape: &[u8]) -> CaseResult {
    let mut focus = Focus::general();
    focus.scripts = 120;
    let o = match built_tx(ctx, tape, focus) {
        Some(o) => o,
        None => {
            ctx.reject();
            return Ok(());
        }
    };
    let first = match &o.tx {
        Some(t) => t.to_bytes(),
        None => return Ok(()),
    };
    let n_ref = cbor::parse_document(&first).ok().and_then(|d| d.as_array().map(|a| a[0].map_get(18).map(|n| set_items(n).len()).unwrap_or(0))).unwrap_or(0);
    // the same builder object, clones of it, each built on a fresh thread as well (fresh hasher state)
    for round in 0..4 {
        let again = match catch(|| o.tb.build_tx()) {
            Ok(Ok(t)) => t.to_bytes(),
            _ => fail!("rebuild/second-build-fails", "round {}; {}", round, describe(&o)),
        };
        ensure!(again == first, "rebuild/same-builder-different-bytes", "building the unchanged builder again gives other bytes ({} reference inputs); first {} again {}; {}", n_ref, hex::encode(&first[..first.len().min(200)]), hex::encode(&again[..again.len().min(200)]), describe(&o));
        let c = o.tb.clone();
        let again2 = match catch(|| c.build_tx()) {
            Ok(Ok(t)) => t.to_bytes(),
            _ => fail!("rebuild/clone-build-fails", "{}", describe(&o)),
        };
        ensure!(again2 == first, "rebuild/clone-different-bytes", "a clone of the builder builds other bytes ({} reference inputs); {}", n_ref, describe(&o));
    }
    // mint field canonical order (policy ids and names)
    if let Ok(d) = cbor::parse_document(&first) {
        if let Some(m) = d.as_array().and_then(|a| a[0].map_get(9)).and_then(|n| n.as_map()) {
            let keys: Vec<&[u8]> = m.iter().map(|(k, _)| &first[k.start..k.end]).collect();
            for w in keys.windows(2) {
                ensure!(cbor::canonical_key_cmp(w[0], w[1]) == std::cmp::Ordering::Less, "rebuild/mint-policies-not-canonical", "{}", describe(&o));
            }
            for (_, assets) in m {
                if let Some(a) = assets.as_map() {
                    let names: Vec<&[u8]> = a.iter().map(|(k, _)| &first[k.start..k.end]).collect();
                    for w in names.windows(2) {
                        ensure!(cbor::canonical_key_cmp(w[0], w[1]) == std::cmp::Ordering::Less, "rebuild/mint-asset-names-not-canonical", "{}", describe(&o));
                    }
                }
            }
        }
    }
    // everything set-typed the builder emits holds each element once (scripts and datums included)
    if let Ok(d) = cbor::parse_document(&first) {
        if let Some(items) = d.as_array() {
            let mut fields: Vec<(&str, u64, &Node)> = Vec::new();
            for k in [0u64, 4, 13, 14, 18, 20] {
                if let Some(n) = items[0].map_get(k) {
                    fields.push(("body", k, n));
                }
            }
            for k in [0u64, 1, 2, 3, 4, 6, 7] {
                if let Some(n) = items[1].map_get(k) {
                    fields.push(("witness_set", k, n));
                }
            }
            for (part, k, n) in fields {
                let els: Vec<&[u8]> = set_items(n).iter().map(|x| &first[x.start..x.end]).collect();
                let mut u = els.clone();
                u.sort();
                u.dedup();
                ensure!(u.len() == els.len(), format!("rebuild/element-emitted-twice/{}-key{}", part, k), "{} field {} holds {} elements, {} distinct; {}", part, k, els.len(), u.len(), describe(&o));
            }
        }
    }
    // certificates are an insertion-ordered set: the body lists them in the order of their first insertion
    if let Ok(d) = cbor::parse_document(&first) {
        if let Some(n) = d.as_array().and_then(|a| a[0].map_get(4)) {
            let got: Vec<Vec<u8>> = set_items(n).iter().map(|x| first[x.start..x.end].to_vec()).collect();
            ensure!(got == o.cert_order, "rebuild/certificates-not-in-first-insertion-order", "emitted {:?}, inserted {:?}; {}", got.iter().map(|c| hex::encode(&c[..c.len().min(8)])).collect::<Vec<_>>(), o.cert_order.iter().map(|c| hex::encode(&c[..c.len().min(8)])).collect::<Vec<_>>(), describe(&o));
            if got.len() >= 2 {
                ctx.label("certificates:>=2-in-order");
            }
        }
    }
    ctx.label(&format!("reference-inputs:{}", n_ref.min(5)));
    if n_ref >= 2 {
        ctx.nontrivial(fp64(&first));
        ctx.sample("c16:rebuild", || format!("{} reference inputs; {}", n_ref, describe(&o)));
    }
    let _ = (Kind::Simple(0), BTreeMap::<u8, u8>::new());
    Ok(())
}
