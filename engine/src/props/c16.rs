//! C16 — sets stay duplicate-free, asset maps canonical, builds deterministic.
use crate::cbor;
use crate::gen::*;
use crate::runner::*;
use crate::tape::*;
use cardano_serialization_lib as csl;
use csl::*;

pub fn property() -> Property {
    Property {
        id: "C16",
        rule: "insertion histories with repeats (pool of <= 4 distinct elements, histories of <= 10 insertions in tape-chosen order) into TransactionInputs, Ed25519KeyHashes, Credentials, Certificates, VotingProposals, Vkeywitnesses, BootstrapWitnesses through three arrival routes (add one by one; from_bytes of tagged and untagged arrays that repeat elements; from_json of arrays that repeat elements), witness-set typed setters fed scripts / datums with repeats, asset bundles and mints filled in random order with names of mixed lengths, and builder scenarios built repeatedly (same object, clones). Oracle: reference model = insertion-ordered set; the emitted array (parsed by cbor.rs) holds pairwise distinct element byte strings in first-insertion order, len() equals the model size, add returns the model's 'was new'; multi-asset and mint maps have canonically ordered keys at both levels; repeated builds are byte-identical. Non-trivial = the history repeats an element after at least one other element, or >= 3 keys of mixed length, or >= 2 reference inputs; distinct by hash of (type, route, history)",
        assumptions: vec![
            "the rebuild sub-check runs every build several times in one process; the hasher state of std HashMap/HashSet differs per instance (RandomState), so an order taken from a fresh HashSet shows up within a few builds".into(),
            "element equality is byte equality of the canonical encoding".into(),
        ],
        subchecks: vec![
            SubCheck { name: "sets", kind: Kind::Tape { quick: 2_000_000, thorough: 30_000_000, max_len: 200 }, run: sets },
            SubCheck { name: "witness_set", kind: Kind::Tape { quick: 500_000, thorough: 10_000_000, max_len: 200 }, run: witness_set_case },
            SubCheck { name: "assets", kind: Kind::Tape { quick: 1_000_000, thorough: 20_000_000, max_len: 200 }, run: assets_case },
            SubCheck { name: "rebuild", kind: Kind::Tape { quick: 300_000, thorough: 6_000_000, max_len: 500 }, run: super::builder::c16_rebuild_case },
        ],
        crash_prone: false,
        max_reject_fraction: 0.1,
        required_label_fraction: vec![],
    }
}

struct SetOps<S, E> {
    name: &'static str,
    new: fn() -> S,
    add: fn(&mut S, &E) -> bool,
    len: fn(&S) -> usize,
    to_bytes: fn(&S) -> Vec<u8>,
    from_bytes: fn(Vec<u8>) -> Result<S, String>,
    to_json: fn(&S) -> Result<String, String>,
    from_json: fn(&str) -> Result<S, String>,
    elem_bytes: fn(&E) -> Vec<u8>,
    elem_json: fn(&E) -> Result<String, String>,
    /// the element decoded from element bytes / element JSON (None: the type has no such constructor)
    elem_from_bytes: fn(Vec<u8>) -> Option<E>,
    elem_from_json: fn(&str) -> Option<E>,
}

/// CBOR of the same item with every tag-258 wrapper removed (the pre-Conway encoding of nested sets)
fn legacy_encoding(bytes: &[u8]) -> Option<Vec<u8>> {
    let mut n = cbor::parse_document(bytes).ok()?;
    let mut nc = crate::mutate::NonCanon { widen: 0, indef: 0, rotate_maps: 0, chunk: 0, strip_set_tags: true, features: Vec::new() };
    let zero = [0u8; 1];
    let mut t = Tape::new(&zero);
    nc.apply(&mut n, &mut t);
    let out = cbor::encode(&n);
    if out == bytes {
        None
    } else {
        Some(out)
    }
}

/// The same element arriving another way: decoded from its own bytes, decoded from the legacy encoding of its bytes
/// (nested sets untagged), read from its JSON. A copy counts only if it serializes to exactly the element's bytes,
/// i.e. it is the same element by the only observable that matters for "emitted twice".
fn provenance_copies<E>(e: &E, elem_bytes: fn(&E) -> Vec<u8>, from_bytes: fn(Vec<u8>) -> Option<E>, to_json: &dyn Fn(&E) -> Option<String>, from_json: fn(&str) -> Option<E>, raw_bytes: &dyn Fn(&E) -> Option<Vec<u8>>) -> Vec<(E, &'static str)> {
    let want = elem_bytes(e);
    let mut out: Vec<(E, &'static str)> = Vec::new();
    if let Some(raw) = raw_bytes(e) {
        if let Ok(Some(c)) = catch(|| from_bytes(raw.clone())) {
            if elem_bytes(&c) == want {
                out.push((c, "from_bytes"));
            }
        }
        if let Some(legacy) = legacy_encoding(&raw) {
            if let Ok(Some(c)) = catch(|| from_bytes(legacy)) {
                if elem_bytes(&c) == want {
                    out.push((c, "from_legacy_bytes"));
                }
            }
        }
    }
    if let Some(j) = to_json(e) {
        if let Ok(Some(c)) = catch(|| from_json(&j)) {
            if elem_bytes(&c) == want {
                out.push((c, "from_json"));
            }
        }
    }
    out
}

fn emitted_elements(name: &str, bytes: &[u8]) -> Result<Vec<Vec<u8>>, Failure> {
    let n = cbor::parse_document(bytes).map_err(|e| Failure::new(format!("sets/malformed-cbor/{}", name), format!("{} {}", e, hex::encode(bytes))))?;
    let arr = n.untag(258);
    let items = arr.as_array().ok_or_else(|| Failure::new(format!("sets/not-an-array/{}", name), hex::encode(bytes)))?;
    Ok(items.iter().map(|x| bytes[x.start..x.end].to_vec()).collect())
}

fn check_set<S, E>(ctx: &mut Ctx, ops: &SetOps<S, E>, pool: &[E], hist: &[usize], route: usize, tagged: bool, prov: &[usize]) -> CaseResult {
    let name = ops.name;
    // every pool element in the forms it can arrive in (index 0: as constructed)
    let elem_json = ops.elem_json;
    let copies: Vec<Vec<(E, &'static str)>> = pool
        .iter()
        .map(|e| {
            provenance_copies(e, ops.elem_bytes, ops.elem_from_bytes, &|x: &E| elem_json(x).ok(), ops.elem_from_json, &|x: &E| {
                // element bytes as CBOR; a type whose elem_bytes is not its own to_bytes (key hashes) has no byte route
                Some((ops.elem_bytes)(x))
            })
        })
        .collect();
    let mut mixed = false;
    // model: insertion-ordered set of element encodings
    let mut model: Vec<Vec<u8>> = Vec::new();
    let enc: Vec<Vec<u8>> = pool.iter().map(|e| (ops.elem_bytes)(e)).collect();
    let desc = |model: &Vec<Vec<u8>>| format!("{} route {} history {:?} (pool of {}), model size {}", name, ["add", "from_bytes", "from_json"][route], hist, pool.len(), model.len());
    let set: S = match route {
        0 => {
            let mut s = (ops.new)();
            for (step, i) in hist.iter().enumerate() {
                let was_new = !model.contains(&enc[*i]);
                // this occurrence arrives as constructed, or as one of the element's other forms
                let k = prov.get(step).copied().unwrap_or(0) % (copies[*i].len() + 1);
                let elem: &E = if k == 0 { &pool[*i] } else { &copies[*i][k - 1].0 };
                if k != 0 {
                    mixed = true;
                    ctx.label(&format!("set-element-arrives:{}", copies[*i][k - 1].1));
                }
                let got = catch(|| (ops.add)(&mut s, elem)).map_err(|p| Failure::new(format!("sets/add-panic/{}", name), p.msg))?;
                if was_new {
                    model.push(enc[*i].clone());
                }
                ensure!(got == was_new, format!("sets/add-return-value/{}", name), "step {}: add returned {} but the element was {}; {}", step, got, if was_new { "new" } else { "already present" }, desc(&model));
                ensure!((ops.len)(&s) == model.len(), format!("sets/len-after-add/{}", name), "step {}: len() = {}; {}", step, (ops.len)(&s), desc(&model));
            }
            s
        }
        1 => {
            for i in hist {
                if !model.contains(&enc[*i]) {
                    model.push(enc[*i].clone());
                }
            }
            // a repeated element may come in its legacy encoding (nested sets untagged) if that decodes to the same element
            let items: Vec<cbor::Node> = hist
                .iter()
                .enumerate()
                .map(|(step, i)| {
                    let legacy_ok = copies[*i].iter().any(|c| c.1 == "from_legacy_bytes");
                    if legacy_ok && prov.get(step).copied().unwrap_or(0) % 2 == 1 {
                        if let Some(l) = legacy_encoding(&enc[*i]) {
                            mixed = true;
                            return cbor::parse_document(&l).expect("legacy element bytes");
                        }
                    }
                    cbor::parse_document(&enc[*i]).expect("element bytes")
                })
                .collect();
            let arr = cbor::array(items);
            let bytes = cbor::encode(&if tagged { cbor::tag(258, arr) } else { arr });
            match catch(|| (ops.from_bytes)(bytes.clone())).map_err(|p| Failure::new(format!("sets/from_bytes-panic/{}", name), p.msg))? {
                Ok(s) => s,
                Err(e) => fail!(format!("sets/from_bytes-rejects-repeats/{}", name), "{}: {} for {}", desc(&model), e, hex::encode(&bytes)),
            }
        }
        _ => {
            for i in hist {
                if !model.contains(&enc[*i]) {
                    model.push(enc[*i].clone());
                }
            }
            let mut parts = Vec::new();
            for i in hist {
                match (ops.elem_json)(&pool[*i]) {
                    Ok(j) => parts.push(j),
                    Err(_) => {
                        ctx.reject();
                        return Ok(());
                    }
                }
            }
            let json = format!("[{}]", parts.join(","));
            match catch(|| (ops.from_json)(&json)).map_err(|p| Failure::new(format!("sets/from_json-panic/{}", name), p.msg))? {
                Ok(s) => s,
                Err(e) => fail!(format!("sets/from_json-rejects-repeats/{}", name), "{}: {}", desc(&model), e),
            }
        }
    };
    ensure!((ops.len)(&set) == model.len(), format!("sets/len/{}", name), "len() = {}; {}", (ops.len)(&set), desc(&model));
    // a set that arrived decoded keeps being a set when the caller goes on adding: every pool element once more (those
    // already in it must be refused, the others appended), in reverse pool order
    let mut set = set;
    if route != 0 {
        for i in (0..pool.len()).rev() {
            let was_new = !model.contains(&enc[i]);
            let got = catch(|| (ops.add)(&mut set, &pool[i])).map_err(|p| Failure::new(format!("sets/add-panic/{}", name), p.msg))?;
            if was_new {
                model.push(enc[i].clone());
            }
            ensure!(got == was_new, format!("sets/add-after-decoding-return-value/{}", name), "add of pool element {} after the set was decoded returned {} but the element was {}; {}", i, got, if was_new { "new" } else { "already present" }, desc(&model));
            ensure!((ops.len)(&set) == model.len(), format!("sets/len-after-add-after-decoding/{}", name), "len() = {} after adding pool element {} to the decoded set; {}", (ops.len)(&set), i, desc(&model));
        }
        ctx.label("history:adds-after-decoding");
    }
    let bytes = catch(|| (ops.to_bytes)(&set)).map_err(|p| Failure::new(format!("sets/to_bytes-panic/{}", name), p.msg))?;
    let got = emitted_elements(name, &bytes)?;
    let mut uniq = got.clone();
    uniq.sort();
    uniq.dedup();
    ensure!(uniq.len() == got.len(), format!("sets/duplicate-emitted/{}", name), "{}: emitted {}", desc(&model), hex::encode(&bytes));
    ensure!(got == model, format!("sets/not-first-insertion-order/{}", name), "{}: emitted {} elements {:?} expected order {:?}", desc(&model), got.len(), got.iter().map(|g| hex::encode(&g[..g.len().min(6)])).collect::<Vec<_>>(), model.iter().map(|g| hex::encode(&g[..g.len().min(6)])).collect::<Vec<_>>());
    // a decoded copy keeps being a set: JSON and bytes round trip once more
    if let Ok(j) = (ops.to_json)(&set) {
        if let Ok(Ok(s2)) = catch(|| (ops.from_json)(&j)) {
            let b2 = (ops.to_bytes)(&s2);
            let g2 = emitted_elements(name, &b2)?;
            ensure!(g2 == model, format!("sets/json-roundtrip-changes-set/{}", name), "{}", desc(&model));
        }
    }
    ctx.label(&format!("set:{}:{}", name, ["add", "from_bytes", "from_json"][route]));
    // a repeat after at least one other element
    let mut repeat_after_other = false;
    for (p, i) in hist.iter().enumerate() {
        if let Some(first) = hist[..p].iter().position(|x| x == i) {
            if hist[first + 1..p].iter().any(|x| x != i) {
                repeat_after_other = true;
            }
        }
    }
    if mixed {
        ctx.label("history:element-forms-mixed");
    }
    if repeat_after_other {
        ctx.label("history:repeat-after-other-element");
        ctx.nontrivial(fp64(format!("{}|{}|{}|{:?}|{:?}", name, route, tagged, hist, enc.iter().map(|e| fp64(e)).collect::<Vec<_>>()).as_bytes()));
        ctx.sample(&format!("sets:{}", name), || desc(&model));
    }
    Ok(())
}

macro_rules! set_ops {
    ($S:ident, $E:ident, $name:expr) => {
        SetOps::<$S, $E> {
            name: $name,
            new: || $S::new(),
            add: |s, e| s.add(e),
            len: |s| s.len(),
            to_bytes: |s| s.to_bytes(),
            from_bytes: |b| $S::from_bytes(b).map_err(|e| format!("{:?}", e)),
            to_json: |s| s.to_json().map_err(|e| format!("{:?}", e)),
            from_json: |j| $S::from_json(j).map_err(|e| format!("{:?}", e)),
            elem_bytes: |e| e.to_bytes(),
            elem_json: |e| e.to_json().map_err(|e| format!("{:?}", e)),
            elem_from_bytes: |b| $E::from_bytes(b).ok(),
            elem_from_json: |j| $E::from_json(j).ok(),
        }
    };
    ($S:ident, $E:ident, $name:expr, no_elem_from_json) => {
        SetOps::<$S, $E> {
            name: $name,
            new: || $S::new(),
            add: |s, e| s.add(e),
            len: |s| s.len(),
            to_bytes: |s| s.to_bytes(),
            from_bytes: |b| $S::from_bytes(b).map_err(|e| format!("{:?}", e)),
            to_json: |s| s.to_json().map_err(|e| format!("{:?}", e)),
            from_json: |j| $S::from_json(j).map_err(|e| format!("{:?}", e)),
            elem_bytes: |e| e.to_bytes(),
            elem_json: |e| e.to_json().map_err(|e| format!("{:?}", e)),
            elem_from_bytes: |b| $E::from_bytes(b).ok(),
            elem_from_json: |_j| None,
        }
    };
}

fn distinct_pool<E>(g: &mut Gen, n: usize, make: fn(&mut Gen) -> E, bytes: fn(&E) -> Vec<u8>) -> Vec<E> {
    let mut pool: Vec<E> = Vec::new();
    let mut seen: Vec<Vec<u8>> = Vec::new();
    let mut tries = 0;
    while pool.len() < n && tries < 4 * n + 4 {
        tries += 1;
        let e = make(g);
        let b = bytes(&e);
        if !seen.contains(&b) {
            seen.push(b);
            pool.push(e);
        }
    }
    pool
}

fn sets(ctx: &mut Ctx, tape: &[u8]) -> CaseResult {
    let (plan, content) = split_plan(tape, 16);
    let mut t = Tape::new(plan);
    let which = t.choose(7);
    let route = t.choose(3);
    let tagged = t.bool();
    let pool_n = 1 + t.choose(4);
    let hist_len = 1 + t.choose(10);
    let prov: Vec<usize> = (0..hist_len).map(|_| t.choose(4)).collect();
    let mut g = Gen::new(content, 2, 3);
    g.cddl_ranges = true;
    macro_rules! run {
        ($S:ident, $E:ident, $name:expr, $make:expr) => {{
            let pool: Vec<$E> = distinct_pool(&mut g, pool_n, $make, |e| e.to_bytes());
            if pool.is_empty() {
                ctx.reject();
                return Ok(());
            }
            let hist: Vec<usize> = (0..hist_len).map(|_| t.choose(pool.len())).collect();
            check_set(ctx, &set_ops!($S, $E, $name), &pool, &hist, route, tagged, &prov)
        }};
    }
    match which {
        0 => run!(TransactionInputs, TransactionInput, "TransactionInputs", tx_input),
        1 => {
            let pool: Vec<Ed25519KeyHash> = distinct_pool(&mut g, pool_n, key_hash_json, |e| e.to_bytes());
            let hist: Vec<usize> = (0..hist_len).map(|_| t.choose(pool.len())).collect();
            let mut ops = set_ops!(Ed25519KeyHashes, Ed25519KeyHash, "Ed25519KeyHashes", no_elem_from_json);
            // a hash exposes raw bytes; inside the set it is a CBOR byte string
            ops.elem_bytes = |e| cbor::encode(&cbor::bytes(&e.to_bytes()));
            ops.elem_from_bytes = |b| cbor::parse_document(&b).ok().and_then(|n| n.as_bytes().map(|x| x.to_vec())).and_then(|raw| Ed25519KeyHash::from_bytes(raw).ok());
            check_set(ctx, &ops, &pool, &hist, route, tagged, &prov)
        }
        2 => run!(Credentials, Credential, "Credentials", credential),
        3 => run!(Certificates, Certificate, "Certificates", certificate),
        4 => run!(VotingProposals, VotingProposal, "VotingProposals", voting_proposal),
        5 => run!(Vkeywitnesses, Vkeywitness, "Vkeywitnesses", vkeywitness),
        _ => run!(BootstrapWitnesses, BootstrapWitness, "BootstrapWitnesses", bootstrap_witness),
    }
}

fn key_hash_json(g: &mut Gen) -> Ed25519KeyHash {
    key_hash(g)
}

// Ed25519KeyHash has no to_json of its own: its JSON form is the hex string
trait HashJson {
    fn to_json(&self) -> Result<String, JsError>;
}
impl HashJson for Ed25519KeyHash {
    fn to_json(&self) -> Result<String, JsError> {
        Ok(format!("\"{}\"", self.to_hex()))
    }
}

fn emitted_under_key(bytes: &[u8], key: u64) -> Option<Vec<Vec<u8>>> {
    let n = cbor::parse_document(bytes).ok()?;
    let v = n.map_get(key)?;
    let arr = v.untag(258);
    Some(arr.as_array()?.iter().map(|x| bytes[x.start..x.end].to_vec()).collect())
}

fn witness_set_case(ctx: &mut Ctx, tape: &[u8]) -> CaseResult {
    let (plan, content) = split_plan(tape, 12);
    let mut t = Tape::new(plan);
    let mut g = Gen::new(content, 2, 3);
    let which = t.choose(3);
    let hist_len = 2 + t.choose(6);
    let mut ws = TransactionWitnessSet::new();
    let (key, want): (u64, Vec<Vec<u8>>) = match which {
        0 => {
            let pool: Vec<NativeScript> = distinct_pool(&mut g, 1 + t.choose(3), native_script, |e| e.to_bytes());
            let hist: Vec<usize> = (0..hist_len).map(|_| t.choose(pool.len())).collect();
            // the same script may arrive as constructed, decoded from bytes, or read from JSON
            let copies: Vec<Vec<(NativeScript, &'static str)>> = pool.iter().map(|e| provenance_copies(e, |x| x.to_bytes(), |b| NativeScript::from_bytes(b).ok(), &|x: &NativeScript| x.to_json().ok(), |j| NativeScript::from_json(j).ok(), &|x: &NativeScript| Some(x.to_bytes()))).collect();
            let mut l = NativeScripts::new();
            let mut model: Vec<Vec<u8>> = Vec::new();
            for i in &hist {
                let k = t.choose(4) % (copies[*i].len() + 1);
                if k == 0 {
                    l.add(&pool[*i]);
                } else {
                    ctx.label(&format!("witness-set-element-arrives:{}", copies[*i][k - 1].1));
                    l.add(&copies[*i][k - 1].0);
                }
                let b = pool[*i].to_bytes();
                if !model.contains(&b) {
                    model.push(b);
                }
            }
            ws.set_native_scripts(&l);
            (1, model)
        }
        1 => {
            // Plutus scripts of one language (key 3)
            let pool: Vec<PlutusScript> = distinct_pool(&mut g, 1 + t.choose(3), |g| PlutusScript::new(plutus_script(g).bytes()), |e| e.to_bytes());
            let hist: Vec<usize> = (0..hist_len).map(|_| t.choose(pool.len())).collect();
            let mut l = PlutusScripts::new();
            let mut model: Vec<Vec<u8>> = Vec::new();
            for i in &hist {
                l.add(&pool[*i]);
                let b = pool[*i].to_bytes();
                if !model.contains(&b) {
                    model.push(b);
                }
            }
            ws.set_plutus_scripts(&l);
            (3, model)
        }
        _ => {
            let pool: Vec<PlutusData> = distinct_pool(&mut g, 1 + t.choose(3), plutus_data, |e| e.to_bytes());
            let hist: Vec<usize> = (0..hist_len).map(|_| t.choose(pool.len())).collect();
            let mut l = PlutusList::new();
            let mut model: Vec<Vec<u8>> = Vec::new();
            for i in &hist {
                l.add(&pool[*i]);
                let b = pool[*i].to_bytes();
                if !model.contains(&b) {
                    model.push(b);
                }
            }
            // the list itself may arrive decoded from its bytes, with its repeats in it
            let l = match hist_len % 2 {
                1 => match catch(|| PlutusList::from_bytes(l.to_bytes())) {
                    Ok(Ok(d)) => {
                        ctx.label("witness-set-datum-list-arrives:from_bytes");
                        d
                    }
                    _ => l,
                },
                _ => l,
            };
            ws.set_plutus_data(&l);
            (4, model)
        }
    };
    let bytes = catch(|| ws.to_bytes()).map_err(|p| Failure::new("witness_set/to_bytes-panic", p.msg))?;
    let got = emitted_under_key(&bytes, key).unwrap_or_default();
    let field = ["", "native_scripts", "", "plutus_scripts", "plutus_data"][key as usize];
    let mut uniq = got.clone();
    uniq.sort();
    uniq.dedup();
    ensure!(uniq.len() == got.len(), format!("witness_set/emitted-twice/{}", field), "{}", hex::encode(&bytes));
    ensure!(got == want, format!("witness_set/not-once-in-first-insertion-order/{}", field), "emitted {} expected {}: {}", got.len(), want.len(), hex::encode(&bytes));
    ctx.label(&format!("witness_set:{}", field));
    if hist_len > want.len() && want.len() >= 2 {
        ctx.nontrivial(fp64(&bytes));
        ctx.sample(&format!("witness_set:{}", field), || format!("{} insertions of {} distinct -> {}", hist_len, want.len(), hex::encode(&bytes[..bytes.len().min(100)])));
    }
    Ok(())
}

fn canonical_keys(name: &str, level: &str, keys: &[&[u8]]) -> CaseResult {
    for w in keys.windows(2) {
        ensure!(cbor::canonical_key_cmp(w[0], w[1]) == std::cmp::Ordering::Less, format!("assets/{}-not-canonical/{}", level, name), "{} before {}", hex::encode(w[0]), hex::encode(w[1]));
    }
    Ok(())
}

fn check_asset_map(name: &str, bytes: &[u8], two_level: bool) -> CaseResult {
    let n = cbor::parse_document(bytes).map_err(|e| Failure::new(format!("assets/malformed/{}", name), e.to_string()))?;
    let top = n.as_map().ok_or_else(|| Failure::new(format!("assets/not-a-map/{}", name), hex::encode(bytes)))?;
    let keys: Vec<&[u8]> = top.iter().map(|(k, _)| &bytes[k.start..k.end]).collect();
    canonical_keys(name, if two_level { "policy-ids" } else { "asset-names" }, &keys)?;
    if two_level {
        for (_, v) in top {
            if let Some(inner) = v.as_map() {
                let names: Vec<&[u8]> = inner.iter().map(|(k, _)| &bytes[k.start..k.end]).collect();
                canonical_keys(name, "asset-names", &names)?;
            }
        }
    }
    Ok(())
}

fn assets_case(ctx: &mut Ctx, tape: &[u8]) -> CaseResult {
    let mut t = Tape::new(tape);
    let which = t.choose(5);
    let n = 2 + t.choose(8);
    // names of mixed lengths, inserted in tape order
    let mut names: Vec<Vec<u8>> = Vec::new();
    for _ in 0..n {
        let len = [0usize, 1, 2, 3, 31, 32][t.choose(6)];
        let b = t.bytes(len);
        if !names.contains(&b) {
            names.push(b);
        }
    }
    let mut policies: Vec<Vec<u8>> = Vec::new();
    for _ in 0..1 + t.choose(4) {
        let p = t.bytes(28);
        if !policies.contains(&p) {
            policies.push(p);
        }
    }
    let mixed = names.iter().map(|n| n.len()).collect::<std::collections::BTreeSet<_>>().len() >= 2 && names.len() >= 3;
    let name_of = |b: &Vec<u8>| AssetName::new(b.clone()).unwrap();
    let pid = |b: &Vec<u8>| ScriptHash::from_bytes(b.clone()).unwrap();
    let bytes: Vec<u8>;
    let label;
    match which {
        0 => {
            let mut a = Assets::new();
            for nm in &names {
                a.insert(&name_of(nm), &bn(1 + t.choose(5) as u64));
            }
            bytes = a.to_bytes();
            check_asset_map("Assets", &bytes, false)?;
            label = "Assets";
        }
        1 => {
            let mut m = MultiAsset::new();
            for (i, nm) in names.iter().enumerate() {
                m.set_asset(&pid(&policies[(i * 7 + t.choose(3)) % policies.len()]), &name_of(nm), &bn(1 + i as u64));
            }
            bytes = m.to_bytes();
            check_asset_map("MultiAsset", &bytes, true)?;
            // inside a value and an output as well
            let v = Value::new_with_assets(&bn(5), &m);
            let vb = v.to_bytes();
            let vn = cbor::parse_document(&vb).map_err(|e| Failure::new("assets/malformed/Value", e.to_string()))?;
            if let Some(items) = vn.as_array() {
                check_asset_map("Value", &vb[items[1].start..items[1].end], true)?;
            }
            label = "MultiAsset";
        }
        2 => {
            // Mint built by hand in arbitrary policy order: a Mint is a list, its emitted map must still be canonical
            let mut m = Mint::new();
            for p in &policies {
                let mut ma = MintAssets::new();
                for (i, nm) in names.iter().enumerate() {
                    if t.chance(150) || i == 0 {
                        let _ = ma.insert(&name_of(nm), &Int::new_i32(1 + i as i32));
                    }
                }
                m.insert(&pid(p), &ma);
            }
            bytes = m.to_bytes();
            let n = cbor::parse_document(&bytes).map_err(|e| Failure::new("assets/malformed/Mint", e.to_string()))?;
            // asset names inside each policy must be canonical; policy order of a hand-built Mint is the caller's
            if let Some(top) = n.as_map() {
                for (_, v) in top {
                    if let Some(inner) = v.as_map() {
                        let ns: Vec<&[u8]> = inner.iter().map(|(k, _)| &bytes[k.start..k.end]).collect();
                        canonical_keys("Mint", "asset-names", &ns)?;
                    }
                }
            }
            label = "Mint";
        }
        3 => {
            // the mint field the builder emits: MintBuilder filled in arbitrary order
            let mut mb = MintBuilder::new();
            for (pi, _) in policies.iter().enumerate() {
                let script = NativeScript::new_timelock_start(&TimelockStart::new_timelockstart(&bn(pi as u64 * 7 + t.choose(50) as u64)));
                let wit = MintWitness::new_native_script(&NativeScriptSource::new(&script));
                for (i, nm) in names.iter().enumerate() {
                    if t.chance(150) || i == 0 {
                        let _ = mb.add_asset(&wit, &name_of(nm), &Int::new_i32(1 + i as i32));
                    }
                }
            }
            let mint = match catch(|| mb.build()) {
                Ok(Ok(m)) => m,
                _ => {
                    ctx.reject();
                    return Ok(());
                }
            };
            bytes = mint.to_bytes();
            check_asset_map("MintBuilder", &bytes, true)?;
            label = "MintBuilder";
        }
        _ => {
            // JSON arrival: MultiAsset from a JSON object written in arbitrary member order
            let mut parts = Vec::new();
            for p in &policies {
                let inner: Vec<String> = names.iter().map(|nm| format!("\"{}\":\"{}\"", hex::encode(nm), 1 + t.choose(9))).collect();
                parts.push(format!("\"{}\":{{{}}}", hex::encode(p), inner.join(",")));
            }
            let json = format!("{{{}}}", parts.join(","));
            let m = match catch(|| MultiAsset::from_json(&json)) {
                Ok(Ok(m)) => m,
                _ => {
                    ctx.reject();
                    return Ok(());
                }
            };
            bytes = m.to_bytes();
            check_asset_map("MultiAsset(from_json)", &bytes, true)?;
            label = "MultiAsset(from_json)";
        }
    }
    ctx.label(&format!("assets:{}", label));
    if mixed {
        ctx.nontrivial(fp64(&bytes));
        ctx.sample(&format!("assets:{}", label), || format!("{} names of lengths {:?}, {} policies -> {}", names.len(), names.iter().map(|n| n.len()).collect::<Vec<_>>(), policies.len(), hex::encode(&bytes[..bytes.len().min(120)])));
    }
    Ok(())
}
