//! C13 — send-all batches spend everything once and every transaction is valid.
//!
//! A case is a plain-data description (owners, UTxOs, target address, configuration) decoded from
//! the tape. It is executed on several FRESH threads (fresh `RandomState` keys: the batcher keeps its
//! working sets in `HashMap`/`HashSet`), each thread builds the CSL values, calls `create_send_all` and
//! returns the bytes of every transaction. The oracle runs on the shard thread: it parses the bytes
//! with `cbor.rs`, takes input values from the case's own UTxO map, assembles the really signed
//! transaction (real Ed25519 / Icarus bootstrap signatures made with keys the case holds) and
//! checks the ledger rules the property names. No library sum, size or fee function is consulted.
use crate::cbor;
use crate::gen::bn;
use crate::runner::*;
use crate::tape::*;
use cardano_serialization_lib as csl;
use cryptoxide::digest::Digest;
use csl::*;
use std::cell::RefCell;
use std::collections::{BTreeMap, BTreeSet};
use std::rc::Rc;
use std::sync::Arc;

pub fn property() -> Property {
    Property {
        id: "C13",
        rule: "tape-decoded (UTxO set, owners, target address, configuration), executed on 3 (quick) / 8 (thorough) fresh threads. Non-trivial = create_send_all returned Ok in at least one execution AND (>= 2 transactions, or >= 2 outputs in one transaction, or a count on a CBOR width boundary {23,24,25,255,256,257}: inputs / outputs / witnesses of a transaction, policies of an output, assets of a policy, supplied UTxOs); distinct by hash of the canonical case (sorted supplied outpoints with owner address and value, target address, configuration)",
        assumptions: vec![
            "hash-order dimension: the batcher iterates HashMap/HashSet with the per-thread random hasher, so the grouping of UTxOs into transactions (and whether a given input fails) differs between executions; every case is executed on fresh threads (std::thread::spawn per execution = fresh hasher keys) and fails if ANY execution violates the oracle. This is the one place where a run is not a pure function of the seed: the generated cases are, the library's executions are not. Replay (strict mode) re-executes an input on up to 200 fresh threads and reports the observed failure fraction".into(),
            "fee check: the signed transaction is assembled by the engine from the emitted body bytes, a witness set built with cbor.rs and the emitted is_valid / auxiliary-data items; it carries one REAL vkey witness (make_vkey_witness with the owner's key over blake2b-256 of the body bytes) per distinct owning payment key and one REAL bootstrap witness (make_icarus_bootstrap_witness) per distinct Byron address; witness arrays carry tag 258 exactly when the library's own mock witness set does".into(),
            "size limit: the size compared with max_tx_size is that of the really signed transaction (the emitted transaction with mock witnesses can only be larger when the library attaches more mock witnesses than required)".into(),
            "the supplied UTxOs form a set (pairwise distinct outpoints), asset quantities are >= 1, owners are key-locked base / enterprise / pointer addresses and Byron addresses (Icarus style and, built from bytes through ByronAddress::from_bytes, with a derivation-path attribute); script-locked inputs are outside the property (the library refuses them)".into(),
            "min-ADA bound: coin >= coins_per_utxo_byte * (160 + byte length of the emitted output); value size: byte length of the emitted value item <= max_value_size".into(),
            "a panic inside create_send_all is reported as a failure (it is neither Ok nor Err); Err is always accepted".into(),
            "batch_large (61..400 UTxOs) is a separate sub-check because a case must decode identically in every tier; its quick count is small by design (the batcher is super-linear)".into(),
            "shrinking of one failure is bounded by a work budget (sum of UTxOs + asset entries over the shrink candidates executed); beyond it candidates are answered 'does not reproduce', so the reported input is the smallest failing one found within the budget, always a genuinely failing input".into(),
        ],
        subchecks: vec![
            SubCheck { name: "batch", kind: Kind::Tape { quick: 3_000, thorough: 140_000, max_len: 640 }, run: batch_small },
            SubCheck { name: "batch_large", kind: Kind::Tape { quick: 96, thorough: 10_000, max_len: 1600 }, run: batch_large },
        ],
        crash_prone: false,
        max_reject_fraction: 0.05,
        required_label_fraction: vec![("batch", "batch:result:ok", 0.35), ("batch", "batch:nontrivial", 0.15)],
    }
}

// ---------------------------------------------------------------------------------------------
// keys (derived once per shard thread; a derivation costs ~2 ms, a child derivation ~0.1 ms)

struct KeyMat {
    bip32: Bip32PrivateKey,
    raw: PrivateKey,
    xpub: Vec<u8>,
    keyhash: Vec<u8>,
}

thread_local! {
    static KEYRING: RefCell<(Option<Bip32PrivateKey>, BTreeMap<usize, Rc<KeyMat>>)> = RefCell::new((None, BTreeMap::new()));
    static BYRON_SELFTEST: RefCell<bool> = RefCell::new(false);
}

fn key(k: usize) -> Rc<KeyMat> {
    KEYRING.with(|c| {
        let mut c = c.borrow_mut();
        if let Some(m) = c.1.get(&k) {
            return m.clone();
        }
        if c.0.is_none() {
            c.0 = Some(Bip32PrivateKey::from_bip39_entropy(&[0x13u8; 32], &[]));
        }
        let child = c.0.as_ref().unwrap().derive(0x8000_0000 + k as u32);
        let raw = child.to_raw_key();
        let xpub = child.to_public().as_bytes();
        let keyhash = raw.to_public().hash().to_bytes();
        let m = Rc::new(KeyMat { bip32: child, raw, xpub, keyhash });
        c.1.insert(k, m.clone());
        m
    })
}

fn blake2b(data: &[u8], out_len: usize) -> Vec<u8> {
    let mut h = cryptoxide::blake2b::Blake2b::new(out_len);
    h.input(data);
    let mut out = vec![0u8; out_len];
    h.result(&mut out);
    out
}

fn sha3_256(data: &[u8]) -> Vec<u8> {
    let mut h = cryptoxide::sha3::Sha3_256::new();
    h.input(data);
    let mut out = vec![0u8; 32];
    h.result(&mut out);
    out
}

fn crc32(data: &[u8]) -> u32 {
    let mut crc = 0xFFFF_FFFFu32;
    for b in data {
        crc ^= *b as u32;
        for _ in 0..8 {
            crc = if crc & 1 == 1 { (crc >> 1) ^ 0xEDB8_8320 } else { crc >> 1 };
        }
    }
    crc ^ 0xFFFF_FFFF
}

/// Byron address bytes built by the engine: `[#6.24(bytes([root, attributes, 0])), crc32]`,
/// root = blake2b-224(sha3-256([0, [0, xpub], attributes])). With `derivation` = None this is the
/// Icarus form (cross-checked once per thread against `ByronAddress::icarus_from_key`).
fn byron_address_bytes(xpub: &[u8], derivation: Option<&[u8]>, magic: Option<u32>) -> Vec<u8> {
    let mut attrs: Vec<(cbor::Node, cbor::Node)> = Vec::new();
    if let Some(d) = derivation {
        attrs.push((cbor::uint(1), cbor::bytes(d)));
    }
    if let Some(m) = magic {
        attrs.push((cbor::uint(2), cbor::bytes(&cbor::encode(&cbor::uint(m as u64)))));
    }
    let attrs = cbor::map(attrs);
    let spending = cbor::array(vec![cbor::uint(0), cbor::bytes(xpub)]);
    let root_src = cbor::encode(&cbor::array(vec![cbor::uint(0), spending, attrs.clone()]));
    let root = blake2b(&sha3_256(&root_src), 28);
    let payload = cbor::encode(&cbor::array(vec![cbor::bytes(&root), attrs, cbor::uint(0)]));
    let crc = crc32(&payload);
    cbor::encode(&cbor::array(vec![cbor::tag(24, cbor::bytes(&payload)), cbor::uint(crc as u64)]))
}

fn byron_selftest() {
    BYRON_SELFTEST.with(|d| {
        if *d.borrow() {
            return;
        }
        *d.borrow_mut() = true;
        let k = key(0);
        for magic in [764824073u32, 1, 42] {
            let lib = ByronAddress::icarus_from_key(&Bip32PublicKey::from_bytes(&k.xpub).unwrap(), magic).to_bytes();
            let mine = byron_address_bytes(&k.xpub, None, if magic == 764824073 { None } else { Some(magic) });
            assert_eq!(lib, mine, "engine's Byron address construction disagrees with icarus_from_key");
        }
        let hd = byron_address_bytes(&k.xpub, Some(&[7u8; 30]), None);
        let parsed = ByronAddress::from_bytes(hd.clone()).expect("engine-built Byron address with derivation path must parse");
        assert_eq!(parsed.to_bytes(), hd);
    });
}

// ---------------------------------------------------------------------------------------------
// the case (plain data, Send)

#[derive(Clone, Copy, PartialEq, Eq, Debug)]
enum OwnerKind {
    Base,
    Enterprise,
    Pointer,
    Icarus,
    ByronHd,
}

impl OwnerKind {
    fn name(&self) -> &'static str {
        match self {
            OwnerKind::Base => "base",
            OwnerKind::Enterprise => "enterprise",
            OwnerKind::Pointer => "pointer",
            OwnerKind::Icarus => "byron-icarus",
            OwnerKind::ByronHd => "byron-derivation-path",
        }
    }
    fn is_byron(&self) -> bool {
        matches!(self, OwnerKind::Icarus | OwnerKind::ByronHd)
    }
}

struct Owner {
    kind: OwnerKind,
    key: usize,
    addr: Vec<u8>,
    /// serialized length of the witness this owner needs (101 for a vkey witness)
    wit_len: usize,
}

struct Utxo {
    txid: Vec<u8>,
    index: u32,
    owner: usize,
    coin: u64,
    /// (policy number, asset name) -> quantity
    assets: BTreeMap<(u32, Vec<u8>), u64>,
}

#[derive(Clone, Copy)]
struct Cfg {
    a: u64,
    b: u64,
    cpb: u64,
    max_value: u32,
    max_tx: u32,
}

struct Case {
    owners: Vec<Owner>,
    utxos: Vec<Utxo>,
    target: Vec<u8>,
    target_kind: &'static str,
    cfg: Cfg,
    shape: usize,
}

fn policy_bytes(p: u32) -> Vec<u8> {
    let mut out = Vec::with_capacity(28);
    let mut x = (p as u64 + 1).wrapping_mul(0x9E37_79B9_7F4A_7C15) ^ 0x1357_9BDF_0246_8ACE;
    for _ in 0..28 {
        x ^= x << 13;
        x ^= x >> 7;
        x ^= x << 17;
        out.push((x >> 24) as u8);
    }
    // keep the policy number readable in the first bytes
    out[0] = (p >> 8) as u8;
    out[1] = p as u8;
    out
}

fn keyhash_cred(h: &[u8]) -> Credential {
    Credential::from_keyhash(&Ed25519KeyHash::from_bytes(h.to_vec()).unwrap())
}

fn script_cred(h: &[u8]) -> Credential {
    Credential::from_scripthash(&ScriptHash::from_bytes(h.to_vec()).unwrap())
}

fn gen_pointer(t: &mut Tape) -> Pointer {
    match t.choose(4) {
        0 => Pointer::new(1, 2, 3),
        1 => Pointer::new(t.u32_class(), t.u32_class(), t.u32_class()),
        2 => Pointer::new_pointer(&bn(t.u64_class()), &bn(t.u64_class()), &bn(t.u64_class())),
        _ => Pointer::new_pointer(&bn(u64::MAX), &bn(u64::MAX), &bn(u64::MAX)),
    }
}

fn gen_magic(t: &mut Tape) -> Option<u32> {
    match t.choose(5) {
        0 => None,
        1 => Some(1),
        2 => Some(2),
        3 => Some(42),
        _ => Some(u32::MAX),
    }
}

const HD_PAYLOAD_LENS: [usize; 6] = [30, 1, 0, 28, 64, 150];

fn gen_owner(t: &mut Tape, n_keys: usize, mix: usize, fixed_key: Option<usize>) -> Owner {
    let kind = match mix {
        0 => [OwnerKind::Base, OwnerKind::Enterprise, OwnerKind::Pointer][t.choose(3)],
        2 => [OwnerKind::Icarus, OwnerKind::ByronHd][t.choose(2)],
        _ => [OwnerKind::Base, OwnerKind::Enterprise, OwnerKind::Pointer, OwnerKind::Icarus, OwnerKind::ByronHd][t.choose(5)],
    };
    let k = match fixed_key {
        Some(k) => k,
        None => t.choose(n_keys),
    };
    let km = key(k);
    let net = t.choose(2) as u8;
    let addr = match kind {
        OwnerKind::Base => {
            let stake = if t.chance(60) { script_cred(&pool_bytes(t.choose(3) as u8, 28, 0xC2)) } else { keyhash_cred(&pool_bytes(t.choose(3) as u8, 28, 0xC1)) };
            BaseAddress::new(net, &keyhash_cred(&km.keyhash), &stake).to_address().to_bytes()
        }
        OwnerKind::Enterprise => EnterpriseAddress::new(net, &keyhash_cred(&km.keyhash)).to_address().to_bytes(),
        OwnerKind::Pointer => PointerAddress::new(net, &keyhash_cred(&km.keyhash), &gen_pointer(t)).to_address().to_bytes(),
        OwnerKind::Icarus => byron_address_bytes(&km.xpub, None, gen_magic(t)),
        OwnerKind::ByronHd => {
            let l = HD_PAYLOAD_LENS[t.choose(HD_PAYLOAD_LENS.len())];
            let payload: Vec<u8> = (0..l).map(|i| (i as u8).wrapping_mul(31).wrapping_add(k as u8)).collect();
            byron_address_bytes(&km.xpub, Some(&payload), gen_magic(t))
        }
    };
    let wit_len = if kind.is_byron() {
        let attrs = ByronAddress::from_bytes(addr.clone()).expect("engine-built Byron address parses").attributes();
        1 + 34 + 66 + 34 + hdr(attrs.len() as u64) + attrs.len()
    } else {
        101
    };
    Owner { kind, key: k, addr, wit_len }
}

fn gen_target(t: &mut Tape) -> (Vec<u8>, &'static str) {
    let kind = t.choose(7);
    let k = t.choose(40);
    let net = t.choose(2) as u8;
    match kind {
        0 => (BaseAddress::new(net, &keyhash_cred(&pool_bytes(k as u8, 28, 0xD0)), &keyhash_cred(&pool_bytes(k as u8, 28, 0xD1))).to_address().to_bytes(), "base"),
        1 => (EnterpriseAddress::new(net, &keyhash_cred(&pool_bytes(k as u8, 28, 0xD0))).to_address().to_bytes(), "enterprise"),
        2 => (PointerAddress::new(net, &keyhash_cred(&pool_bytes(k as u8, 28, 0xD0)), &gen_pointer(t)).to_address().to_bytes(), "pointer"),
        3 => (byron_address_bytes(&key(k % 4).xpub, None, gen_magic(t)), "byron-icarus"),
        4 => {
            let l = HD_PAYLOAD_LENS[t.choose(HD_PAYLOAD_LENS.len())];
            (byron_address_bytes(&key(k % 4).xpub, Some(&vec![0x5Au8; l]), gen_magic(t)), "byron-derivation-path")
        }
        5 => (BaseAddress::new(net, &script_cred(&pool_bytes(k as u8, 28, 0xD2)), &keyhash_cred(&pool_bytes(k as u8, 28, 0xD1))).to_address().to_bytes(), "base-script"),
        _ => (EnterpriseAddress::new(net, &script_cred(&pool_bytes(k as u8, 28, 0xD2))).to_address().to_bytes(), "enterprise-script"),
    }
}

const QTY_EDGES: [u64; 12] = [23, 24, 25, 255, 256, 257, 65535, 65536, 65537, 0xFFFF_FFFF, 0x1_0000_0000, 0x1_0000_0001];
const QTY_HALVES: [u64; 4] = [12, 128, 32768, 1 << 31];

/// modes 0..2 stay below 2^34 so that sums over 400 UTxOs cannot overflow u64 (overflow is a legitimate
/// Err of the batcher, but it teaches nothing); mode 3 covers the 8-byte classes up to 2^64-1
fn gen_qty(c: &mut Tape, mode: usize) -> u64 {
    let k = match mode {
        0 => c.choose(4),
        1 => c.choose(5),
        2 => 2 + c.choose(3),
        _ => c.choose(8),
    };
    let q = match k {
        0 => 1,
        1 => c.range_u64(1, 23),
        2 => QTY_EDGES[c.choose(QTY_EDGES.len())],
        3 => QTY_HALVES[c.choose(QTY_HALVES.len())],
        4 => c.range_u64(1, 5_000_000),
        5 => c.u64_class_max(1 << 40),
        6 => [1u64 << 62, 1 << 63, (1 << 63) - 1, u64::MAX / 3][c.choose(4)],
        _ => {
            if c.chance(40) {
                c.u64_class()
            } else {
                c.u64_class_max(1 << 56)
            }
        }
    };
    q.max(1)
}

const NAME_LENS: [usize; 7] = [4, 0, 32, 1, 31, 2, 16];

fn asset_name(len: usize, j: u32) -> Vec<u8> {
    // j is embedded big-endian in the tail so that names of one length are pairwise distinct
    let mut v = vec![0xA5u8; len];
    let jb = j.to_be_bytes();
    for i in 0..len.min(4) {
        v[len - 1 - i] = jb[3 - i];
    }
    v
}

fn min_ada_guess(cfg: &Cfg, n_assets: usize) -> u64 {
    let sz = 225u128 + 40 * n_assets as u128;
    (cfg.cpb as u128 * sz).min(1 << 60) as u64
}

fn gen_coin(c: &mut Tape, cfg: &Cfg, n_assets: usize, fee_guess: u64, carriers_ample: bool) -> u64 {
    let m = min_ada_guess(cfg, n_assets);
    let k = c.choose(12);
    // a UTxO that carries assets and little ADA makes the batcher give up unless pure-ADA UTxOs can pay
    // for it (an Err, which is acceptable but teaches nothing): keep two thirds of the carriers ample,
    // and nearly all of them in layouts that have no pure-ADA UTxO at all
    let k = if n_assets > 0 && k >= 5 && (c.chance(170) || carriers_ample) { 0 } else { k };
    match k {
        0..=4 => m.saturating_mul(1 + c.choose(4) as u64).saturating_add(fee_guess).saturating_add(c.range_u64(0, 2_000_000)),
        5 => c.range_u64(0, m.max(1)),
        6 => {
            let d = c.range_u64(0, cfg.cpb.saturating_mul(24).max(4));
            if c.bool() {
                m.saturating_add(d)
            } else {
                m.saturating_sub(d)
            }
        }
        7 => c.u64_class_max(1 << 44),
        8 => {
            let b = [24u64, 256, 65536, 1 << 32][c.choose(4)];
            let d = c.range_u64(0, 6);
            let v = if c.bool() { b + d } else { b - d };
            if c.bool() {
                v.saturating_add(fee_guess)
            } else {
                v
            }
        }
        9 => c.range_u64(1_000_000_000, 10_000_000_000_000),
        10 => m.saturating_add(c.range_u64(0, fee_guess.saturating_mul(2).max(2))),
        _ => {
            if c.chance(50) {
                c.u64_class()
            } else {
                m.saturating_mul(3).saturating_add(fee_guess)
            }
        }
    }
}

fn hdr(n: u64) -> usize {
    1 + cbor::min_width(n) as usize
}

/// Byte length of the transaction the batcher would emit if everything went into ONE transaction with
/// ONE output (witnesses counted the way the batcher counts them: one vkey witness per distinct
/// Shelley address). Only used to steer amounts onto width boundaries; never part of the oracle.
fn single_tx_size(owners: &[Owner], utxos: &[Utxo], target: &[u8], last_coin: u64, fee: u64) -> u64 {
    let mut inputs = 0usize;
    let mut shelley: BTreeSet<&Vec<u8>> = BTreeSet::new();
    let mut byron: BTreeMap<&Vec<u8>, usize> = BTreeMap::new();
    let mut assets: BTreeMap<u32, BTreeMap<&Vec<u8>, u128>> = BTreeMap::new();
    for u in utxos {
        inputs += 1 + 34 + hdr(u.index as u64);
        let o = &owners[u.owner];
        if o.kind.is_byron() {
            byron.insert(&o.addr, o.wit_len);
        } else {
            shelley.insert(&o.addr);
        }
        for ((p, name), q) in &u.assets {
            *assets.entry(*p).or_default().entry(name).or_insert(0) += *q as u128;
        }
    }
    let mut wit = 1usize;
    if !shelley.is_empty() {
        wit += 1 + 3 + hdr(shelley.len() as u64) + 101 * shelley.len();
    }
    if !byron.is_empty() {
        wit += 1 + 3 + hdr(byron.len() as u64) + byron.values().sum::<usize>();
    }
    let value = if assets.is_empty() {
        hdr(last_coin)
    } else {
        let mut v = 1 + hdr(last_coin) + hdr(assets.len() as u64);
        for names in assets.values() {
            v += 30 + hdr(names.len() as u64);
            for (name, q) in names {
                v += hdr(name.len() as u64) + name.len() + hdr((*q).min(u64::MAX as u128) as u64);
            }
        }
        v
    };
    let output = 1 + hdr(target.len() as u64) + target.len() + value;
    let body = 1 + (1 + 3 + hdr(utxos.len() as u64) + inputs) + (1 + 1 + output) + (1 + hdr(fee));
    (1 + body + wit + 2) as u64
}

fn gen_case(tape: &[u8], large: bool) -> Case {
    byron_selftest();
    let (plan, rest) = split_plan(tape, 40);
    let mut h = Tape::new(plan);
    let n = if !large {
        match h.choose(14) {
            0 => 1,
            1 => 2,
            2 => 3,
            3 | 4 => h.range(4, 8),
            5 | 6 | 7 => h.range(9, 22),
            8 => 23,
            9 => 24,
            10 => 25,
            11 | 12 => h.range(26, 40),
            _ => h.range(41, 60),
        }
    } else {
        match h.choose(8) {
            0 | 1 => h.range(61, 120),
            2 => h.range(121, 254),
            3 => 255,
            4 => 256,
            5 => 257,
            6 => h.range(258, 320),
            _ => h.range(321, 400),
        }
    };
    let shape = h.choose(8);
    let n_keys = match h.choose(5) {
        0 => 1,
        1 => 2,
        2 => 3,
        3 => h.range(4, 8),
        _ => h.range(9, 30),
    };
    let owners_plan = h.choose(8);
    let n_owners = match owners_plan {
        0 => 1,
        1 => 2,
        2 => 3,
        3 => h.range(4, 8),
        4 => h.range(9, 22),
        5 => h.range(23, 30),
        // exactly 23 / 24 / 25 owners with a key each, every one of them used: the witness count itself
        // (and not only the library's per-address over-count) sits on the array-header boundary
        _ => [24usize, 23, 25][h.choose(3)],
    };
    let exact_owners = owners_plan >= 6;
    let n = if exact_owners { n.max(n_owners) } else { n };
    let owner_mix = if exact_owners { [0usize, 2][owners_plan - 6] } else { h.choose(4) };
    let a = match h.choose(6) {
        0 => 44,
        1 => 0,
        2 => 1,
        3 => 500,
        4 => h.range_u64(2, 1000),
        _ => h.u64_class_max(100_000),
    };
    let b_mode = h.choose(9);
    let b_raw = match b_mode {
        0 => 155_381,
        1 => 0,
        2 => 1,
        3 => 1_000_000,
        4 => h.range_u64(2, 400_000),
        5 => h.u64_class_max(50_000_000),
        _ => 0, // 6..8: the fee is steered onto a width boundary of its own encoding (below)
    };
    let b_noise = h.range_u64(0, 255);
    let cpb = match h.choose(9) {
        0 => 4310,
        1 => 1,
        2 => 34,
        3 => 100_000,
        4 => h.range_u64(2, 20_000),
        5 => h.u64_class_max(2_000_000),
        6 => 4310,
        7 => {
            // minimum ADA of a plain output close to a width boundary of the coin
            let bnd = [65536u64, 1 << 32, 65536, 256][h.choose(4)];
            (bnd / h.range_u64(200, 420)).max(1)
        }
        _ => {
            if h.chance(90) {
                0
            } else {
                1
            }
        }
    };
    let max_value = match h.choose(7) {
        0 => 5000,
        1 => 4000,
        2 => 100,
        3 => h.range(101, 200),
        4 => h.range(200, 1000),
        5 => h.range(1000, 5000),
        _ => h.range(100, 5000),
    } as u32;
    let max_tx_mode = h.choose(12);
    let max_tx_abs = match max_tx_mode {
        0 => 16384,
        1 => 8000,
        2 => 500,
        3 => h.range(501, 1000),
        4 => h.range(1000, 2000),
        5 => h.range(2000, 4000),
        6 => h.range(4000, 16384),
        7 => 16384,
        8 => h.range(500, 16384),
        _ => 0, // 9..11: a fraction of what one transaction for everything would take (below)
    } as u32;
    let max_tx_percent = h.range_u64(22, 105);
    let pool_policies = 1 + h.choose(4);
    let pool_names = 1 + h.choose(5);
    let fat_k = if large { [23usize, 24, 25, 255, 256, 257, 60, 100][h.choose(8)] } else { [23usize, 24, 25, 255, 256, 257, 60, 26][h.choose(8)] };
    // many POLICIES in one UTxO make the batcher very slow (seconds per execution at 256, minutes when the
    // UTxO cannot be placed at all); a value cannot hold more than ~147 policies under max_value_size <= 5000
    // anyway, so the small sub-check stops at 60 and the large one goes to 255..257 in ~2 % of its fat cases
    let fat_policies = {
        let k = h.choose(6);
        let rare = h.byte();
        if large && rare != 0 && rare < 7 {
            [100usize, 255, 256, 257][k % 4]
        } else {
            [23usize, 24, 25, 26, 40, 60][k]
        }
    };
    let fat_name_len = [2usize, 1, 32, 31, 3, 0][h.choose(6)];
    let qty_mode = {
        let m = h.choose(4);
        // sums of 8-byte quantities over hundreds of UTxOs overflow (a legitimate Err): keep that rare
        if large && m == 3 && !h.chance(64) {
            1
        } else {
            m
        }
    };
    let boundary_target = {
        let bt = h.choose(8);
        // steering leaves one rich UTxO and dust: with hundreds of UTxOs (several transactions) that is an Err
        if large && bt < 7 {
            0
        } else {
            bt
        }
    };
    let target_seed = [h.byte(), h.byte(), h.byte(), h.byte(), h.byte(), h.byte()];
    let txid_pool = 1 + h.choose(3);
    let index_mode = h.choose(5);
    let carriers_ample = matches!(shape, 4 | 5 | 6) && h.byte() < 200;

    // owners and target are functions of the header only
    let filler = expand(plan, 4096 + if large { 8192 } else { 0 });
    let mut ot = Tape::new(&filler[..1024]);
    let mut owners: Vec<Owner> = Vec::new();
    for i in 0..n_owners {
        owners.push(gen_owner(&mut ot, n_keys, owner_mix, if exact_owners { Some(i) } else { None }));
    }
    let (target, target_kind) = {
        let mut tt = Tape::new(&target_seed);
        gen_target(&mut tt)
    };
    let distinct_owner_addrs = owners.iter().map(|o| o.addr.clone()).collect::<BTreeSet<_>>().len().min(n);
    let size_guess = 90u64 + 37 * n as u64 + 101 * distinct_owner_addrs as u64;
    let mut cfg = Cfg { a, b: if b_mode >= 6 { 65536u64.saturating_sub(a.saturating_mul(size_guess)) } else { b_raw }, cpb, max_value, max_tx: max_tx_abs.max(500) };
    let fee_guess = (a as u128 * size_guess as u128 + cfg.b as u128).min(1 << 50) as u64;

    // content: the rest of the tape, then a pseudo-random continuation that is a function of the header
    let mut content: Vec<u8> = rest.to_vec();
    content.extend_from_slice(&filler[1024..]);
    let mut c = Tape::new(&content);

    // shared asset pool
    let mut pool: Vec<(u32, Vec<u8>)> = Vec::new();
    for p in 0..pool_policies {
        let mut seen: BTreeSet<Vec<u8>> = BTreeSet::new();
        for j in 0..pool_names {
            let len = NAME_LENS[(p * 3 + j * 2 + shape) % NAME_LENS.len()];
            let mut name = asset_name(len, j as u32);
            if !seen.insert(name.clone()) {
                name = asset_name(5, j as u32);
                seen.insert(name.clone());
            }
            pool.push((p as u32, name));
        }
    }

    let mut used_outpoints: BTreeSet<(Vec<u8>, u32)> = BTreeSet::new();
    let mut utxos: Vec<Utxo> = Vec::new();
    let fat_at = if shape == 2 || shape == 3 { Some(c.choose(n)) } else { None };
    for i in 0..n {
        let mut assets: BTreeMap<(u32, Vec<u8>), u64> = BTreeMap::new();
        if Some(i) == fat_at {
            if shape == 2 {
                // k assets under one policy
                let len = if fat_name_len == 1 && fat_k > 255 { 2 } else { fat_name_len.max(1) };
                for j in 0..fat_k {
                    let name = if j == 0 && fat_name_len == 0 { Vec::new() } else { asset_name(len, j as u32) };
                    assets.insert((1000, name), gen_qty(&mut c, qty_mode));
                }
            } else {
                // k policies with one asset each
                for j in 0..fat_policies {
                    let name = asset_name(fat_name_len, 0);
                    assets.insert((1000 + j as u32, name), gen_qty(&mut c, qty_mode));
                }
            }
        } else {
            match shape {
                0 => {}
                4 => {
                    // every UTxO carries pool asset 0 (amounts accumulate), some carry more
                    assets.insert(pool[0].clone(), gen_qty(&mut c, qty_mode));
                    if c.chance(60) {
                        let id = pool[c.choose(pool.len())].clone();
                        assets.insert(id, gen_qty(&mut c, qty_mode));
                    }
                }
                5 => {
                    // own policy per UTxO: no intersections
                    let k = 1 + c.choose(3);
                    for j in 0..k {
                        let len = NAME_LENS[c.choose(NAME_LENS.len())];
                        let name = if len == 0 && j > 0 { asset_name(1, j as u32) } else { asset_name(len, j as u32) };
                        assets.insert((2000 + i as u32, name), gen_qty(&mut c, qty_mode));
                    }
                }
                6 => {
                    // chain: UTxO i shares one asset with each neighbour
                    assets.insert((3000, asset_name(3, i as u32)), gen_qty(&mut c, qty_mode));
                    assets.insert((3000, asset_name(3, i as u32 + 1)), gen_qty(&mut c, qty_mode));
                }
                _ => match c.choose(5) {
                    0 | 1 => {}
                    2 => {
                        let id = pool[c.choose(pool.len())].clone();
                        assets.insert(id, gen_qty(&mut c, qty_mode));
                    }
                    3 => {
                        for _ in 0..(1 + c.choose(4)) {
                            let id = pool[c.choose(pool.len())].clone();
                            assets.insert(id, gen_qty(&mut c, qty_mode));
                        }
                    }
                    _ => {
                        for id in pool.iter() {
                            if c.chance(170) {
                                assets.insert(id.clone(), gen_qty(&mut c, qty_mode));
                            }
                        }
                    }
                },
            }
        }
        let coin = gen_coin(&mut c, &cfg, assets.len(), fee_guess, carriers_ample);
        let owner = if exact_owners { i % owners.len() } else { c.choose(owners.len()) };
        let txid = {
            let j = c.choose(txid_pool) as u8;
            let mut seed = plan.to_vec();
            seed.push(j);
            let mut id = expand(&seed, 32);
            id[31] = j;
            id
        };
        let mut index: u32 = match index_mode {
            0 => i as u32,
            1 => 20 + i as u32,
            2 => 250 + i as u32,
            3 => 65530 + i as u32,
            _ => u32::MAX - i as u32,
        };
        while !used_outpoints.insert((txid.clone(), index)) {
            index = index.wrapping_add(1);
        }
        utxos.push(Utxo { txid, index, owner, coin, assets });
    }

    let total = |utxos: &Vec<Utxo>| -> u64 { utxos.iter().map(|u| u.coin as u128).sum::<u128>().min(u64::MAX as u128 / 2) as u64 };
    // max_tx_size as a fraction of the one-transaction size: forces 2..5 transactions
    let one_tx = single_tx_size(&owners, &utxos, &target, total(&utxos), fee_guess);
    if max_tx_mode >= 9 {
        cfg.max_tx = (one_tx.saturating_mul(max_tx_percent) / 100).clamp(500, 16384) as u32;
    }
    if shape == 3 {
        // a fat UTxO that cannot be placed in any transaction is an Err the batcher needs minutes to reach
        cfg.max_tx = cfg.max_tx.max((fat_policies as u32 * 80 + 600).min(16384));
        if fat_policies >= 100 {
            cfg.max_value = cfg.max_value.max(1000);
        }
    }
    // fee steered onto a width boundary of its own encoding: b = B - a*size + small noise
    if b_mode >= 6 {
        let bf = [65536u64, 256, 1 << 32, 24, 65536, 1 << 32][((b_mode - 6) * 2 + (b_noise as usize & 1)) % 6];
        let size = single_tx_size(&owners, &utxos, &target, total(&utxos), bf);
        let centre = bf.saturating_sub(a.saturating_mul(size));
        let d = (b_noise >> 2) % 8; // 0..7 -> -3a-2 .. +4a+..
        let noise = a.saturating_mul(d % 4).saturating_add(d / 4 * 2);
        cfg.b = if b_noise & 2 == 0 { centre.saturating_add(noise) } else { centre.saturating_sub(noise) };
    }
    // total steered onto a width boundary of the last output's coin
    if boundary_target >= 4 {
        let m = min_ada_guess(&cfg, 0);
        let cands: Vec<u64> = [1u64 << 32, 65536, 256, 24].iter().cloned().filter(|b| *b > m).collect();
        if !cands.is_empty() {
            let bsel = cands[(boundary_target - 4 + c.choose(4)) % cands.len()];
            // the fee of the one-transaction layout with the last coin just above the boundary
            let mut fee = fee_guess;
            for _ in 0..3 {
                let sz = single_tx_size(&owners, &utxos, &target, bsel, fee);
                fee = (cfg.a as u128 * sz as u128 + cfg.b as u128).min(1 << 60) as u64;
            }
            let want = if c.bool() {
                // wide: anywhere within three fees above the boundary
                (bsel as u128 + c.range_u64(0, fee.saturating_mul(3).saturating_add(16)) as u128).min(u64::MAX as u128 / 2) as u64
            } else {
                // narrow: last coin within a few bytes' worth of fee around the boundary
                let half = cfg.a.saturating_mul(6).saturating_add(8).min(1 << 40);
                (bsel as u128 + fee as u128 + c.range_u64(0, 2 * half) as u128).saturating_sub(half as u128).min(u64::MAX as u128 / 2) as u64
            };
            // dust for all but one "rich" UTxO, which takes what is left; the rich one is pure ADA when there
            // are others, because the batcher tops asset carriers up from pure-ADA UTxOs only
            let rich = if fat_at == Some(0) && n > 1 { 1 } else { 0 };
            if n > 1 {
                utxos[rich].assets.clear();
            }
            let each = if n > 1 && c.bool() { (want / (2 * n as u64)).min(m.saturating_mul(2)) } else { 0 };
            let mut left = want;
            for (i, u) in utxos.iter_mut().enumerate() {
                if i != rich {
                    u.coin = each;
                    left = left.saturating_sub(each);
                }
            }
            utxos[rich].coin = left;
        }
    }
    Case { owners, utxos, target, target_kind, cfg, shape }
}

fn render(case: &Case) -> String {
    let c = &case.cfg;
    let mut s = format!(
        "config: fee={}*size+{} coins_per_utxo_byte={} max_value_size={} max_tx_size={}; target={} {}; {} UTxOs: ",
        c.a,
        c.b,
        c.cpb,
        c.max_value,
        c.max_tx,
        case.target_kind,
        hex::encode(&case.target),
        case.utxos.len()
    );
    for (i, u) in case.utxos.iter().enumerate() {
        if s.len() > 9000 {
            s.push_str(&format!("… (+{} more)", case.utxos.len() - i));
            break;
        }
        let o = &case.owners[u.owner];
        s.push_str(&format!("[{}#{} owner={}/key{} addr={} coin={}", hex::encode(&u.txid[..4]), u.index, o.kind.name(), o.key, hex::encode(&o.addr), u.coin));
        let mut shown = 0;
        for ((p, name), q) in &u.assets {
            if shown == 6 {
                s.push_str(&format!(" …{} assets", u.assets.len()));
                break;
            }
            s.push_str(&format!(" p{}.{}={}", p, hex::encode(name), q));
            shown += 1;
        }
        s.push_str("] ");
    }
    s
}

fn case_fingerprint(case: &Case) -> u64 {
    let mut keys: Vec<Vec<u8>> = Vec::new();
    for u in &case.utxos {
        let mut k = u.txid.clone();
        k.extend_from_slice(&u.index.to_be_bytes());
        k.extend_from_slice(&case.owners[u.owner].addr);
        k.extend_from_slice(&u.coin.to_be_bytes());
        for ((p, name), q) in &u.assets {
            k.extend_from_slice(&p.to_be_bytes());
            k.push(name.len() as u8);
            k.extend_from_slice(name);
            k.extend_from_slice(&q.to_be_bytes());
        }
        keys.push(k);
    }
    keys.sort();
    let mut all: Vec<u8> = Vec::new();
    for k in keys {
        all.extend_from_slice(&(k.len() as u32).to_be_bytes());
        all.extend_from_slice(&k);
    }
    all.extend_from_slice(&case.target);
    let c = &case.cfg;
    for v in [c.a, c.b, c.cpb, c.max_value as u64, c.max_tx as u64] {
        all.extend_from_slice(&v.to_be_bytes());
    }
    fp64(&all)
}

// ---------------------------------------------------------------------------------------------
// execution on a fresh thread

enum Exec {
    Ok(Vec<Vec<u8>>),
    Err(String),
    Panic(PanicInfo),
    Engine(String),
}

fn execute(case: &Case) -> Exec {
    let target = match Address::from_bytes(case.target.clone()) {
        Ok(a) => a,
        Err(e) => return Exec::Engine(format!("target address does not parse: {:?}", e)),
    };
    if target.to_bytes() != case.target {
        return Exec::Engine("target address does not round-trip".into());
    }
    let mut owner_addrs: Vec<Address> = Vec::new();
    for o in &case.owners {
        match Address::from_bytes(o.addr.clone()) {
            Ok(a) => {
                if a.to_bytes() != o.addr {
                    return Exec::Engine(format!("owner address {} does not round-trip", hex::encode(&o.addr)));
                }
                owner_addrs.push(a)
            }
            Err(e) => return Exec::Engine(format!("owner address does not parse: {:?}", e)),
        }
    }
    let mut policies: BTreeMap<u32, ScriptHash> = BTreeMap::new();
    let mut list = TransactionUnspentOutputs::new();
    for u in &case.utxos {
        let value = if u.assets.is_empty() {
            Value::new(&bn(u.coin))
        } else {
            let mut ma = MultiAsset::new();
            for ((p, name), q) in &u.assets {
                let pid = policies.entry(*p).or_insert_with(|| ScriptHash::from_bytes(policy_bytes(*p)).unwrap());
                let an = match AssetName::new(name.clone()) {
                    Ok(a) => a,
                    Err(e) => return Exec::Engine(format!("asset name: {:?}", e)),
                };
                ma.set_asset(pid, &an, &bn(*q));
            }
            Value::new_with_assets(&bn(u.coin), &ma)
        };
        let txid = match TransactionHash::from_bytes(u.txid.clone()) {
            Ok(h) => h,
            Err(e) => return Exec::Engine(format!("txid: {:?}", e)),
        };
        let input = TransactionInput::new(&txid, u.index);
        let output = TransactionOutput::new(&owner_addrs[u.owner], &value);
        list.add(&TransactionUnspentOutput::new(&input, &output));
    }
    let c = &case.cfg;
    let cfg = match TransactionBuilderConfigBuilder::new()
        .fee_algo(&LinearFee::new(&bn(c.a), &bn(c.b)))
        .pool_deposit(&bn(500_000_000))
        .key_deposit(&bn(2_000_000))
        .max_value_size(c.max_value)
        .max_tx_size(c.max_tx)
        .coins_per_utxo_byte(&bn(c.cpb))
        .build()
    {
        Ok(c) => c,
        Err(e) => return Exec::Engine(format!("config: {:?}", e)),
    };
    match catch(|| create_send_all(&target, &list, &cfg)) {
        Err(p) => Exec::Panic(p),
        Ok(Err(e)) => Exec::Err(format!("{:?}", e)),
        Ok(Ok(batches)) => {
            let r = catch(|| {
                let mut out: Vec<Vec<u8>> = Vec::new();
                for bi in 0..batches.len() {
                    let batch = batches.get(bi);
                    for ti in 0..batch.len() {
                        out.push(batch.get(ti).to_bytes());
                    }
                }
                out
            });
            match r {
                Ok(v) => Exec::Ok(v),
                Err(p) => Exec::Panic(p),
            }
        }
    }
}

fn run_on_fresh_thread(case: &Arc<Case>) -> Exec {
    let c = case.clone();
    let h = std::thread::Builder::new().stack_size(64 << 20).spawn(move || execute(&c));
    match h {
        Ok(j) => match j.join() {
            Ok(e) => e,
            Err(_) => Exec::Engine("execution thread panicked outside the library call".into()),
        },
        Err(e) => Exec::Engine(format!("cannot spawn thread: {}", e)),
    }
}

// ---------------------------------------------------------------------------------------------
// oracle

type AssetId = (Vec<u8>, Vec<u8>);

struct POut {
    addr: Vec<u8>,
    coin: u64,
    assets: BTreeMap<AssetId, u128>,
    value_len: usize,
    out_len: usize,
    n_policies: usize,
    assets_per_policy: Vec<usize>,
}

struct PTx {
    inputs: Vec<(Vec<u8>, u32)>,
    outputs: Vec<POut>,
    fee: u64,
    body: (usize, usize),
    tail: (usize, usize),
    mock_vkeys: usize,
    mock_boots: usize,
    vkeys_tagged: bool,
    boots_tagged: bool,
    wit_len: usize,
}

fn parse_value(n: &cbor::Node) -> Result<(u64, BTreeMap<AssetId, u128>, usize, Vec<usize>), String> {
    if let Some(c) = n.as_u64() {
        return Ok((c, BTreeMap::new(), 0, Vec::new()));
    }
    let items = n.as_array().ok_or("value is neither uint nor array")?;
    if items.len() != 2 {
        return Err("value array is not [coin, multiasset]".into());
    }
    let coin = items[0].as_u64().ok_or("value coin is not uint")?;
    let pols = items[1].as_map().ok_or("multiasset is not a map")?;
    let mut assets: BTreeMap<AssetId, u128> = BTreeMap::new();
    let mut per_policy = Vec::new();
    for (pk, pv) in pols {
        let pid = pk.as_bytes().ok_or("policy id is not bytes")?;
        if pid.len() != 28 {
            return Err("policy id is not 28 bytes".into());
        }
        let names = pv.as_map().ok_or("assets of a policy are not a map")?;
        per_policy.push(names.len());
        for (nk, nv) in names {
            let name = nk.as_bytes().ok_or("asset name is not bytes")?;
            if name.len() > 32 {
                return Err("asset name longer than 32 bytes".into());
            }
            let q = nv.as_u64().ok_or("asset quantity is not uint")?;
            if assets.insert((pid.to_vec(), name.to_vec()), q as u128).is_some() {
                return Err("duplicate asset id inside one value".into());
            }
        }
    }
    Ok((coin, assets, pols.len(), per_policy))
}

fn parse_tx(bytes: &[u8]) -> Result<PTx, String> {
    let doc = cbor::parse_document(bytes).map_err(|e| format!("not well-formed CBOR: {}", e))?;
    let items = doc.as_array().ok_or("transaction is not an array")?;
    if items.len() != 4 || doc.is_indef() {
        return Err("transaction is not a definite array of 4".into());
    }
    if !matches!(items[2].kind, cbor::Kind::Simple(21)) {
        return Err("is_valid is not true".into());
    }
    if !items[3].is_null() {
        return Err("auxiliary data is not null".into());
    }
    let body = &items[0];
    let entries = body.as_map().ok_or("body is not a map")?;
    let mut seen = BTreeSet::new();
    for (k, _) in entries {
        let k = k.as_u64().ok_or("body key is not uint")?;
        if !seen.insert(k) {
            return Err("duplicate body key".into());
        }
        if k > 2 {
            return Err(format!("body carries field {} (only inputs, outputs, fee are expected of a send-all)", k));
        }
    }
    let ins = body.map_get(0).ok_or("body has no inputs")?.untag(258);
    let mut inputs = Vec::new();
    for i in ins.as_array().ok_or("inputs are not an array")? {
        let pair = i.as_array().ok_or("input is not an array")?;
        if pair.len() != 2 {
            return Err("input is not [txid, index]".into());
        }
        let txid = pair[0].as_bytes().ok_or("txid is not bytes")?;
        let ix = pair[1].as_u64().ok_or("input index is not uint")?;
        if txid.len() != 32 || ix > u32::MAX as u64 {
            return Err("input txid / index out of range".into());
        }
        inputs.push((txid.to_vec(), ix as u32));
    }
    let outs = body.map_get(1).ok_or("body has no outputs")?;
    let mut outputs = Vec::new();
    for o in outs.as_array().ok_or("outputs are not an array")? {
        let (addr, value) = match &o.kind {
            cbor::Kind::Array { items, .. } => {
                if items.len() != 2 {
                    return Err("legacy output carries more than address and value".into());
                }
                (&items[0], &items[1])
            }
            cbor::Kind::Map { entries, .. } => {
                if entries.iter().any(|(k, _)| k.as_u64().map(|k| k > 1).unwrap_or(true)) {
                    return Err("output carries a datum or script reference".into());
                }
                (o.map_get(0).ok_or("output has no address")?, o.map_get(1).ok_or("output has no value")?)
            }
            _ => return Err("output is neither array nor map".into()),
        };
        let (coin, assets, n_policies, assets_per_policy) = parse_value(value)?;
        outputs.push(POut {
            addr: addr.as_bytes().ok_or("output address is not bytes")?.to_vec(),
            coin,
            assets,
            value_len: value.end - value.start,
            out_len: o.end - o.start,
            n_policies,
            assets_per_policy,
        });
    }
    let fee = body.map_get(2).ok_or("body has no fee")?.as_u64().ok_or("fee is not uint")?;
    let wits = &items[1];
    wits.as_map().ok_or("witness set is not a map")?;
    let count = |k: u64| -> Result<(usize, bool), String> {
        match wits.map_get(k) {
            None => Ok((0, true)),
            Some(n) => {
                let tagged = n.as_tag().map(|(t, _)| t == 258).unwrap_or(false);
                Ok((n.untag(258).as_array().ok_or("witness list is not an array")?.len(), tagged))
            }
        }
    };
    let (mock_vkeys, vkeys_tagged) = count(0)?;
    let (mock_boots, boots_tagged) = count(2)?;
    Ok(PTx {
        inputs,
        outputs,
        fee,
        body: (body.start, body.end),
        tail: (items[2].start, items[3].end),
        mock_vkeys,
        mock_boots,
        vkeys_tagged,
        boots_tagged,
        wit_len: wits.end - wits.start,
    })
}

#[derive(Default)]
struct Obs {
    n_tx: usize,
    max_outputs: usize,
    boundary: BTreeSet<String>,
    multi_asset_outputs: usize,
    spare_mock_witnesses: bool,
    byron_signed: bool,
}

/// Narrows fee / balance / size failures to observable predicates on the emitted transaction, one per
/// root cause met so far (L = coin of the last output, w(x) = CBOR width of x, "near" = within nine
/// bytes' worth of fee of one of the width boundaries 24, 256, 65536, 2^32):
/// * fallback: the fee equals a*(size - w(fee) - w(L) + 9) + b, the value `estimate_fee` falls back to
///   when its iteration oscillates, and L, L - fee or the fee is near a boundary (an oscillation needs that);
/// * top-up: outputs + fee exceed the inputs while the last output sits exactly on its minimum ADA: the
///   batcher topped the transaction up with pure-ADA UTxOs, the fee grew, and nobody looked again;
/// * double subtraction: w(L) != w(L - fee): a fee estimated for a last output that is one fee too small;
/// * final recomputation: the fee is exactly a*size+b of the emitted transaction, yet value is not
///   preserved, near a boundary: the last `set_min_ada_for_tx` of `TxBatchBuilder::build` settled on
///   another fee than the one the last output had been filled for.
/// Anything else is "other", so a different defect of the size model keeps its own signature.
fn fee_diagnosis(ptx: &PTx, cfg: &Cfg, emitted_size: usize, in_coin: u128, out_coin: u128) -> &'static str {
    let last = match ptx.outputs.last() {
        Some(o) => o,
        None => return "no-outputs",
    };
    let near = |x: u128| -> bool {
        let slack = 9 * cfg.a as u128 + 9;
        [24u128, 256, 65536, 1 << 32].iter().any(|b| x + slack >= *b && x <= *b + slack)
    };
    let l = last.coin as u128;
    let f = ptx.fee as u128;
    let near_any = near(l) || near(l.saturating_sub(f)) || near(f) || near((l + in_coin).saturating_sub(out_coin));
    let wl = 1 + cbor::min_width(last.coin) as u128;
    let wf = 1 + cbor::min_width(ptx.fee) as u128;
    let t = (emitted_size as u128).saturating_sub(wl + wf);
    if cfg.a > 0 && f == cfg.a as u128 * (t + 9) + cfg.b as u128 && near_any {
        return "fee-is-the-non-convergence-fallback-which-omits-the-last-output-coin";
    }
    if out_coin > in_coin && l == cfg.cpb as u128 * (160 + last.out_len as u128) {
        return "funds-short-after-ada-top-up-yet-transaction-built";
    }
    if cbor::min_width(last.coin) != cbor::min_width(last.coin.saturating_sub(ptx.fee)) {
        return "last-output-coin-less-than-one-fee-above-a-width-boundary";
    }
    if in_coin != out_coin && f == cfg.a as u128 * emitted_size as u128 + cfg.b as u128 && near_any {
        return "fee-fits-the-emitted-size-but-the-last-output-was-filled-for-another-fee";
    }
    "other"
}

fn on_boundary(n: usize) -> bool {
    matches!(n, 23 | 24 | 25 | 255 | 256 | 257)
}

/// assembles the really signed transaction: emitted body bytes + own witness set + emitted is_valid / auxiliary items
fn sign_tx(bytes: &[u8], ptx: &PTx, keys: &BTreeSet<usize>, byron: &BTreeMap<Vec<u8>, usize>) -> Result<Vec<u8>, Failure> {
    let body = &bytes[ptx.body.0..ptx.body.1];
    let hash = blake2b(body, 32);
    let th = TransactionHash::from_bytes(hash).map_err(|e| Failure::new("engine/hash", format!("{:?}", e)))?;
    let mut entries: Vec<(cbor::Node, cbor::Node)> = Vec::new();
    if !keys.is_empty() {
        let mut ws = Vec::new();
        for k in keys {
            let km = key(*k);
            let w = catch(|| make_vkey_witness(&th, &km.raw)).map_err(|p| Failure::new("engine/sign", p.msg))?;
            let vk = w.vkey().public_key().as_bytes();
            let sg = w.signature().to_bytes();
            if vk.len() != 32 || sg.len() != 64 {
                return Err(Failure::new("engine/sign", "vkey witness payload of unexpected size"));
            }
            ws.push(cbor::array(vec![cbor::bytes(&vk), cbor::bytes(&sg)]));
        }
        let arr = cbor::array(ws);
        entries.push((cbor::uint(0), if ptx.vkeys_tagged { cbor::tag(258, arr) } else { arr }));
    }
    if !byron.is_empty() {
        let mut ws = Vec::new();
        for (addr, k) in byron {
            let km = key(*k);
            let ba = ByronAddress::from_bytes(addr.clone()).map_err(|e| Failure::new("engine/sign", format!("{:?}", e)))?;
            let w = catch(|| make_icarus_bootstrap_witness(&th, &ba, &km.bip32)).map_err(|p| Failure::new("engine/sign", p.msg))?;
            let vk = w.vkey().public_key().as_bytes();
            let sg = w.signature().to_bytes();
            let cc = w.chain_code();
            if vk.len() != 32 || sg.len() != 64 || cc.len() != 32 {
                return Err(Failure::new("engine/sign", "bootstrap witness payload of unexpected size"));
            }
            ws.push(cbor::array(vec![cbor::bytes(&vk), cbor::bytes(&sg), cbor::bytes(&cc), cbor::bytes(&w.attributes())]));
        }
        let arr = cbor::array(ws);
        entries.push((cbor::uint(2), if ptx.boots_tagged { cbor::tag(258, arr) } else { arr }));
    }
    let wits = cbor::encode(&cbor::map(entries));
    let mut signed = Vec::with_capacity(bytes.len() + 16);
    signed.push(0x84);
    signed.extend_from_slice(body);
    signed.extend_from_slice(&wits);
    signed.extend_from_slice(&bytes[ptx.tail.0..ptx.tail.1]);
    Ok(signed)
}

fn check_result(case: &Case, txs: &[Vec<u8>]) -> Result<Obs, Failure> {
    let cfg = &case.cfg;
    let mut supplied: BTreeMap<(Vec<u8>, u32), usize> = BTreeMap::new();
    for (i, u) in case.utxos.iter().enumerate() {
        supplied.insert((u.txid.clone(), u.index), i);
    }
    let mut spent: BTreeMap<(Vec<u8>, u32), usize> = BTreeMap::new();
    let mut obs = Obs::default();
    obs.n_tx = txs.len();
    for (ti, bytes) in txs.iter().enumerate() {
        let txhex = || {
            let h = hex::encode(bytes);
            if h.len() > 3000 {
                format!("{}…({} bytes)", &h[..3000], bytes.len())
            } else {
                h
            }
        };
        let ptx = match parse_tx(bytes) {
            Ok(p) => p,
            Err(e) => fail!("send_all/tx-shape", "transaction {} of {}: {}; tx={}", ti, txs.len(), e, txhex()),
        };
        // inputs: supplied, once
        let mut in_coin: u128 = 0;
        let mut in_assets: BTreeMap<AssetId, u128> = BTreeMap::new();
        let mut keys: BTreeSet<usize> = BTreeSet::new();
        let mut byron: BTreeMap<Vec<u8>, usize> = BTreeMap::new();
        for op in &ptx.inputs {
            let ui = match supplied.get(op) {
                Some(i) => *i,
                None => fail!("send_all/input-not-supplied", "transaction {} spends {}#{} which is not among the supplied UTxOs; tx={}", ti, hex::encode(&op.0), op.1, txhex()),
            };
            let e = spent.entry(op.clone()).or_insert(0);
            *e += 1;
            ensure!(*e == 1, "send_all/input-spent-twice", "outpoint {}#{} is spent {} times (seen again in transaction {}); tx={}", hex::encode(&op.0), op.1, *e, ti, txhex());
            let u = &case.utxos[ui];
            in_coin += u.coin as u128;
            for ((p, name), q) in &u.assets {
                *in_assets.entry((policy_bytes(*p), name.clone())).or_insert(0) += *q as u128;
            }
            let o = &case.owners[u.owner];
            if o.kind.is_byron() {
                byron.insert(o.addr.clone(), o.key);
            } else {
                keys.insert(o.key);
            }
        }
        // outputs: target only
        let mut out_coin: u128 = ptx.fee as u128;
        let mut out_assets: BTreeMap<AssetId, u128> = BTreeMap::new();
        for (oi, o) in ptx.outputs.iter().enumerate() {
            ensure!(o.addr == case.target, "send_all/output-not-to-target", "transaction {} output {} pays {} instead of the target {}; tx={}", ti, oi, hex::encode(&o.addr), hex::encode(&case.target), txhex());
            out_coin += o.coin as u128;
            for (id, q) in &o.assets {
                *out_assets.entry(id.clone()).or_insert(0) += *q;
            }
        }
        // value preserved
        if in_coin != out_coin {
            let outs: Vec<u64> = ptx.outputs.iter().map(|o| o.coin).collect();
            let dir = if in_coin > out_coin { "inputs-exceed-outputs-plus-fee" } else { "outputs-plus-fee-exceed-inputs" };
            fail!(
                format!("send_all/unbalanced-lovelace/{}/{}", dir, fee_diagnosis(&ptx, cfg, bytes.len(), in_coin, out_coin)),
                "transaction {} of {}: inputs hold {} lovelace, outputs {:?} + fee {} = {} (difference {}); {} inputs; tx={}",
                ti,
                txs.len(),
                in_coin,
                outs,
                ptx.fee,
                out_coin,
                in_coin as i128 - out_coin as i128,
                ptx.inputs.len(),
                txhex()
            );
        }
        out_assets.retain(|_, q| *q != 0);
        if in_assets != out_assets {
            let mut diff = String::new();
            let ids: BTreeSet<&AssetId> = in_assets.keys().chain(out_assets.keys()).collect();
            for id in ids {
                let i = in_assets.get(id).cloned().unwrap_or(0);
                let o = out_assets.get(id).cloned().unwrap_or(0);
                if i != o && diff.len() < 600 {
                    diff.push_str(&format!(" {}.{}: in {} out {};", hex::encode(&id.0[..4]), hex::encode(&id.1), i, o));
                }
            }
            fail!("send_all/unbalanced-asset", "transaction {} of {}:{} tx={}", ti, txs.len(), diff, txhex());
        }
        // outputs: min ADA and value size
        for (oi, o) in ptx.outputs.iter().enumerate() {
            let need = cfg.cpb as u128 * (160 + o.out_len as u128);
            ensure!(
                o.coin as u128 >= need,
                "send_all/output-below-min-ada",
                "transaction {} output {} ({} of {} outputs) holds {} lovelace < {} * (160 + {}) = {}; {} assets; tx={}",
                ti,
                oi,
                oi + 1,
                ptx.outputs.len(),
                o.coin,
                cfg.cpb,
                o.out_len,
                need,
                o.assets.len(),
                txhex()
            );
            ensure!(
                o.value_len <= cfg.max_value as usize,
                "send_all/value-size-exceeds-max",
                "transaction {} output {}: value is {} bytes > max_value_size {}; {} policies, {} assets; tx={}",
                ti,
                oi,
                o.value_len,
                cfg.max_value,
                o.n_policies,
                o.assets.len(),
                txhex()
            );
        }
        // mock witnesses >= required
        ensure!(
            ptx.mock_vkeys >= keys.len(),
            "send_all/mock-witnesses-fewer-than-required/vkey",
            "transaction {}: {} mock vkey witnesses attached, {} distinct owning payment keys; tx={}",
            ti,
            ptx.mock_vkeys,
            keys.len(),
            txhex()
        );
        ensure!(
            ptx.mock_boots >= byron.len(),
            "send_all/mock-witnesses-fewer-than-required/bootstrap",
            "transaction {}: {} mock bootstrap witnesses attached, {} distinct Byron addresses; tx={}",
            ti,
            ptx.mock_boots,
            byron.len(),
            txhex()
        );
        // real size and fee
        let signed = sign_tx(bytes, &ptx, &keys, &byron)?;
        let size = signed.len();
        ensure!(
            size <= cfg.max_tx as usize,
            format!("send_all/tx-size-exceeds-max/{}", fee_diagnosis(&ptx, cfg, bytes.len(), in_coin, out_coin)),
            "transaction {} of {}: signed size {} (emitted with mock witnesses: {}) > max_tx_size {}; {} inputs, outputs {:?}, fee {}, {} vkey + {} bootstrap witnesses; tx={}",
            ti,
            txs.len(),
            size,
            bytes.len(),
            cfg.max_tx,
            ptx.inputs.len(),
            ptx.outputs.iter().map(|o| o.coin).collect::<Vec<_>>(),
            ptx.fee,
            keys.len(),
            byron.len(),
            txhex()
        );
        let min_fee = cfg.a as u128 * size as u128 + cfg.b as u128;
        if (ptx.fee as u128) < min_fee {
            let own_min = cfg.a as u128 * bytes.len() as u128 + cfg.b as u128;
            let cause = if (ptx.fee as u128) < own_min { "below-minimum-for-the-emitted-mock-signed-size" } else { "real-witnesses-larger-than-mock" };
            fail!(
                format!("send_all/fee-below-minimum/{}/{}", cause, fee_diagnosis(&ptx, cfg, bytes.len(), in_coin, out_coin)),
                "transaction {} of {}: fee {} < {}*{}+{} = {} (signed size {}, emitted size {} whose own minimum is {}; short by {} lovelace); {} inputs, outputs {:?}, {} vkey + {} bootstrap witnesses required, {} + {} mock; witness set {} bytes emitted; tx={}",
                ti,
                txs.len(),
                ptx.fee,
                cfg.a,
                size,
                cfg.b,
                min_fee,
                size,
                bytes.len(),
                own_min,
                min_fee - ptx.fee as u128,
                ptx.inputs.len(),
                ptx.outputs.iter().map(|o| o.coin).collect::<Vec<_>>(),
                keys.len(),
                byron.len(),
                ptx.mock_vkeys,
                ptx.mock_boots,
                ptx.wit_len,
                txhex()
            );
        }
        // observations
        obs.max_outputs = obs.max_outputs.max(ptx.outputs.len());
        if on_boundary(ptx.inputs.len()) {
            obs.boundary.insert(format!("inputs-per-tx={}", ptx.inputs.len()));
        }
        if on_boundary(ptx.outputs.len()) {
            obs.boundary.insert(format!("outputs-per-tx={}", ptx.outputs.len()));
        }
        if on_boundary(keys.len()) {
            obs.boundary.insert(format!("vkey-witnesses={}", keys.len()));
        }
        if on_boundary(byron.len()) {
            obs.boundary.insert(format!("bootstrap-witnesses={}", byron.len()));
        }
        for o in &ptx.outputs {
            if on_boundary(o.n_policies) {
                obs.boundary.insert(format!("policies-per-output={}", o.n_policies));
            }
            for a in &o.assets_per_policy {
                if on_boundary(*a) {
                    obs.boundary.insert(format!("assets-per-policy={}", a));
                }
            }
            if !o.assets.is_empty() {
                obs.multi_asset_outputs += 1;
            }
        }
        if ptx.mock_vkeys > keys.len() || ptx.mock_boots > byron.len() {
            obs.spare_mock_witnesses = true;
        }
        if !byron.is_empty() {
            obs.byron_signed = true;
        }
    }
    // every supplied UTxO spent
    for (op, i) in &supplied {
        ensure!(
            spent.contains_key(op),
            "send_all/input-not-spent",
            "supplied UTxO {} ({}#{}, {} lovelace, {} assets) is spent by none of the {} returned transactions",
            i,
            hex::encode(&op.0),
            op.1,
            case.utxos[*i].coin,
            case.utxos[*i].assets.len(),
            txs.len()
        );
    }
    Ok(obs)
}

fn err_class(e: &str) -> &'static str {
    if e.contains("Not enough funds") {
        "not-enough-funds"
    } else if e.contains("Utxo can not be places") {
        "utxo-too-big-for-tx"
    } else if e.contains("Asset can not be places") {
        "asset-too-big-for-value"
    } else if e.contains("Unable to build") {
        "unable-to-build"
    } else if e.contains("verflow") || e.contains("nderflow") {
        "arithmetic"
    } else if e.contains("already used") {
        "utxo-already-used"
    } else {
        "other"
    }
}

fn n_class(n: usize) -> &'static str {
    match n {
        1 => "1",
        2..=3 => "2-3",
        4..=8 => "4-8",
        9..=22 => "9-22",
        23..=25 => "23-25",
        26..=60 => "26-60",
        61..=254 => "61-254",
        255..=257 => "255-257",
        _ => "258-400",
    }
}

/// rough cost of one execution of a case (the batcher is super-linear in UTxOs and asset entries)
fn work(case: &Case) -> usize {
    1 + case.utxos.len() + case.utxos.iter().map(|u| u.assets.len()).sum::<usize>() / 2
}

fn executions(ctx: &Ctx, case: &Case) -> usize {
    if ctx.strict {
        // replay: up to 200 fresh hasher states, fewer for expensive cases
        (6000 / work(case)).clamp(12, 200)
    } else {
        ctx.tier.pick(3, 8)
    }
}

thread_local! {
    /// work spent on shrink candidates since the last generated case
    static SHRINK_SPENT: RefCell<usize> = RefCell::new(0);
}

/// Bounds the cost of shrinking one failure. The runner gives proptest up to 3000 shrink iterations; a
/// candidate with hundreds of asset entries costs up to a second, so an expensive failure would take
/// most of an hour. Shrink candidates are recognised by the runner having switched its counters off
/// (`wants_sample` of a class that is never sampled); once the budget is spent further candidates are
/// answered with "does not reproduce" without being executed, which ends the shrink with the smallest
/// failing input found so far. Generated cases and replays are never skipped.
fn shrink_budget_exhausted(ctx: &Ctx, case: &Case) -> bool {
    const BUDGET: usize = 40_000;
    let shrinking = !ctx.strict && !ctx.wants_sample("c13:never-sampled");
    SHRINK_SPENT.with(|s| {
        let mut s = s.borrow_mut();
        if !shrinking {
            *s = 0;
            return false;
        }
        if *s > BUDGET {
            return true;
        }
        *s += work(case);
        false
    })
}

fn batch_small(ctx: &mut Ctx, tape: &[u8]) -> CaseResult {
    run_batch(ctx, tape, false)
}

fn batch_large(ctx: &mut Ctx, tape: &[u8]) -> CaseResult {
    run_batch(ctx, tape, true)
}

fn run_batch(ctx: &mut Ctx, tape: &[u8], large: bool) -> CaseResult {
    let sub = if large { "batch_large" } else { "batch" };
    let case = Arc::new(gen_case(tape, large));
    let n = case.utxos.len();
    if shrink_budget_exhausted(ctx, &case) {
        return Ok(());
    }
    let runs = executions(ctx, &case);
    let mut first_failure: Option<Failure> = None;
    let mut failures = 0usize;
    let mut oks = 0usize;
    let mut errs = 0usize;
    let mut checked: BTreeMap<u64, Option<Failure>> = BTreeMap::new();
    let mut obs_all: Vec<Obs> = Vec::new();
    let mut err_msgs: BTreeSet<&'static str> = BTreeSet::new();
    for _ in 0..runs {
        let r = run_on_fresh_thread(&case);
        let outcome: Result<Option<Obs>, Failure> = match r {
            Exec::Engine(m) => Err(Failure::new("engine/execute", m)),
            Exec::Panic(p) => Err(Failure::new(format!("send_all/panic|{}", p.cause()), format!("create_send_all panicked at {}:{}: {}", p.file, p.line, p.msg))),
            Exec::Err(e) => {
                errs += 1;
                err_msgs.insert(err_class(&e));
                Ok(None)
            }
            Exec::Ok(txs) => {
                oks += 1;
                let mut fp = 0u64;
                for t in &txs {
                    fp = fp_mix(fp, fp64(t));
                }
                // identical bytes need not be parsed again, but a failing result counts every time it occurs
                match checked.get(&fp) {
                    Some(None) => Ok(None),
                    Some(Some(f)) => Err(f.clone()),
                    None => {
                        let r = check_result(&case, &txs);
                        checked.insert(fp, r.as_ref().err().cloned());
                        r.map(Some)
                    }
                }
            }
        };
        match outcome {
            Ok(Some(o)) => obs_all.push(o),
            Ok(None) => {}
            Err(f) => {
                if f.sig.starts_with("engine/") {
                    panic!("engine error in C13: {} {}", f.sig, f.detail);
                }
                failures += 1;
                if first_failure.is_none() {
                    first_failure = Some(f);
                }
                if !ctx.strict {
                    break;
                }
            }
        }
    }
    if let Some(mut f) = first_failure {
        if ctx.strict {
            f.detail = format!("{} | failing executions: {} of {} fresh threads | {}", f.detail, failures, runs, render(&case));
        } else {
            f.detail = format!("{} | {}", f.detail, render(&case));
        }
        return Err(f);
    }

    // labels
    ctx.label(&format!("{}:utxos:{}", sub, n_class(n)));
    ctx.label(&format!("{}:shape:{}", sub, ["pure-ada", "mixed", "fat-one-policy", "fat-many-policies", "shared-asset", "own-policy-each", "chain", "mixed"][case.shape]));
    ctx.label(&format!("{}:target:{}", sub, case.target_kind));
    let used_owner_kinds: BTreeSet<&'static str> = case.utxos.iter().map(|u| case.owners[u.owner].kind.name()).collect();
    for k in &used_owner_kinds {
        ctx.label(&format!("{}:owner:{}", sub, k));
    }
    {
        let mut by_key: BTreeMap<usize, BTreeSet<&Vec<u8>>> = BTreeMap::new();
        for u in &case.utxos {
            let o = &case.owners[u.owner];
            if !o.kind.is_byron() {
                by_key.entry(o.key).or_default().insert(&o.addr);
            }
        }
        if by_key.values().any(|s| s.len() >= 2) {
            ctx.label(&format!("{}:owners:addresses-share-a-payment-key", sub));
        }
        if by_key.len() >= 2 {
            ctx.label(&format!("{}:owners:>=2-payment-keys", sub));
        }
    }
    let c = &case.cfg;
    if c.a == 0 {
        ctx.label(&format!("{}:cfg:fee-coefficient=0", sub));
    }
    if c.b == 0 {
        ctx.label(&format!("{}:cfg:fee-constant=0", sub));
    }
    ctx.label(&format!("{}:cfg:coins-per-byte:{}", sub, if c.cpb == 0 { "0" } else if c.cpb < 100 { "1-99" } else if c.cpb <= 10_000 { "100-10000" } else { ">10000" }));
    ctx.label(&format!("{}:cfg:max-tx:{}", sub, if c.max_tx < 1000 { "500-999" } else if c.max_tx < 4000 { "1000-3999" } else { "4000-16384" }));
    ctx.label(&format!("{}:cfg:max-value:{}", sub, if c.max_value < 200 { "100-199" } else if c.max_value < 1000 { "200-999" } else { "1000-5000" }));
    if case.utxos.iter().any(|u| (u.coin as u128) < c.cpb as u128 * 225) {
        ctx.label(&format!("{}:has-dust-utxo", sub));
    }
    if case.utxos.iter().any(|u| u.assets.keys().any(|(_, nm)| nm.is_empty())) {
        ctx.label(&format!("{}:asset-name:0-bytes", sub));
    }
    if case.utxos.iter().any(|u| u.assets.keys().any(|(_, nm)| nm.len() == 32)) {
        ctx.label(&format!("{}:asset-name:32-bytes", sub));
    }
    for u in &case.utxos {
        for q in u.assets.values() {
            ctx.label(&format!("{}:quantity-width:{}", sub, cbor::min_width(*q)));
        }
    }
    if oks > 0 && errs > 0 {
        ctx.label(&format!("{}:hash-order:ok-and-err-mixed", sub));
    }
    if checked.len() >= 2 {
        ctx.label(&format!("{}:hash-order:different-batches", sub));
    }
    for e in &err_msgs {
        ctx.label(&format!("{}:err:{}", sub, e));
    }
    if oks == 0 {
        ctx.label(&format!("{}:result:err", sub));
        return Ok(());
    }
    ctx.label(&format!("{}:result:ok", sub));
    let n_tx = obs_all.iter().map(|o| o.n_tx).max().unwrap_or(0);
    let max_outputs = obs_all.iter().map(|o| o.max_outputs).max().unwrap_or(0);
    ctx.label(&format!("{}:transactions:{}", sub, match n_tx { 0 => "0", 1 => "1", 2 => "2", 3..=5 => "3-5", _ => ">=6" }));
    ctx.label(&format!("{}:max-outputs-per-tx:{}", sub, match max_outputs { 0 => "0", 1 => "1", 2 => "2", 3..=5 => "3-5", 6..=22 => "6-22", _ => ">=23" }));
    let mut boundary: BTreeSet<String> = BTreeSet::new();
    for o in &obs_all {
        for b in &o.boundary {
            boundary.insert(b.clone());
        }
    }
    if on_boundary(n) {
        boundary.insert(format!("supplied-utxos={}", n));
    }
    for b in &boundary {
        ctx.label(&format!("{}:boundary:{}", sub, b));
    }
    if obs_all.iter().any(|o| o.multi_asset_outputs > 0) {
        ctx.label(&format!("{}:has-multi-asset-output", sub));
    }
    if obs_all.iter().any(|o| o.spare_mock_witnesses) {
        ctx.label(&format!("{}:library-attached-more-mock-witnesses-than-required", sub));
    }
    if obs_all.iter().any(|o| o.byron_signed) {
        ctx.label(&format!("{}:bootstrap-witness-signed", sub));
    }
    if n_tx >= 2 || max_outputs >= 2 || !boundary.is_empty() {
        ctx.label(&format!("{}:nontrivial", sub));
        ctx.nontrivial(case_fingerprint(&case));
        let class = if n_tx >= 2 { "several-transactions" } else if max_outputs >= 2 { "several-outputs" } else { "count-on-boundary" };
        ctx.sample(&format!("{}:{}", sub, class), || format!("{} transactions, up to {} outputs each, boundaries {:?}; {}", n_tx, max_outputs, boundary, render(&case)));
    }
    Ok(())
}
