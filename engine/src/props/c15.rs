//! C15 — stand-alone fee functions equal the ledger definitions.
use crate::refnum::*;
use crate::runner::*;
use crate::tape::*;
use cardano_serialization_lib as csl;
use csl::*;
use num_bigint::BigInt as NBig;
use num_traits::Zero;

pub fn property() -> Property {
    Property {
        id: "C15",
        rule: "tape-decoded argument tuples over CBOR width classes and tier edges k*25600+{-1,0,1}; non-trivial = size >= 25600, or the exact value is not an integer (floor/ceil matters), or the exact value lies within 2^16 of 2^64, or an overflow/Err expectation; distinct by hash of (function, arguments)",
        assumptions: vec![
            "reference: tier-by-tier recurrence over num-bigint integers (refnum.rs), cross-checked in the engine's unit tests against a naive BigRational loop".into(),
            "price fractions with a zero denominator have no ledger meaning: the check only requires that the call returns (Ok or Err) without panicking".into(),
            "sizes are explored up to 2^32 as the property states; execution-unit totals above 2^64-1 are outside the stated domain, there Err or the exact value are both accepted".into(),
        ],
        subchecks: vec![
            SubCheck { name: "linear", kind: Kind::Tape { quick: 400_000, thorough: 20_000_000, max_len: 40 }, run: linear },
            SubCheck { name: "exunits", kind: Kind::Tape { quick: 400_000, thorough: 20_000_000, max_len: 120 }, run: exunits },
            SubCheck { name: "ref_script", kind: Kind::Tape { quick: 300_000, thorough: 10_000_000, max_len: 40 }, run: ref_script },
            SubCheck { name: "ref_script_edges", kind: Kind::Enum { count: edges_count, make: edges_make, exhaustive_note: "all tier edges k*25600+{-1,0,1} for k in 0..=400 x 12 fixed price fractions" }, run: ref_script_edge_case },
        ],
        crash_prone: false,
        max_reject_fraction: 0.05,
        required_label_fraction: vec![("ref_script", "ref:size>=25600", 0.3)],
    }
}

fn bn(v: u64) -> BigNum {
    BigNum::from(v)
}

fn linear(ctx: &mut Ctx, tape: &[u8]) -> CaseResult {
    let mut t = Tape::new(tape);
    let size = t.u64_class_max(1 << 32);
    let coeff = t.u64_class();
    let constant = t.u64_class();
    let lf = LinearFee::new(&bn(coeff), &bn(constant));
    let exact = size as u128 * coeff as u128 + constant as u128;
    let got = catch(|| min_fee_for_size(size as usize, &lf));
    let got = match got {
        Ok(g) => g,
        Err(p) => fail!("linear/panic", "min_fee_for_size({}, a={}, b={}) panicked: {}", size, coeff, constant, p.msg),
    };
    let overflow = exact > u64::MAX as u128;
    match (&got, overflow) {
        (Ok(v), false) => {
            let v: u64 = (*v).into();
            ensure!(v as u128 == exact, "linear/wrong-value", "min_fee_for_size({}, a={}, b={}) = {} but a*size+b = {}", size, coeff, constant, v, exact);
        }
        (Err(_), true) => {}
        (Ok(v), true) => {
            let v: u64 = (*v).into();
            fail!("linear/number-instead-of-error", "min_fee_for_size({}, a={}, b={}) = {} but the exact value {} does not fit u64", size, coeff, constant, v, exact)
        }
        (Err(e), false) => fail!("linear/error-instead-of-number", "min_fee_for_size({}, a={}, b={}) = Err({:?}) but exact value {} fits", size, coeff, constant, e, exact),
    }
    ctx.label(if overflow { "linear:overflow" } else { "linear:fits" });
    let near = exact > (u64::MAX as u128 - 65536) && exact < (u64::MAX as u128 + 65536);
    if near {
        ctx.label("linear:near-2^64");
    }
    if overflow || near || (coeff > 23 && size > 23) {
        ctx.nontrivial(fp64(format!("lin|{}|{}|{}", size, coeff, constant).as_bytes()));
        ctx.sample("linear", || format!("min_fee_for_size(size={}, coefficient={}, constant={}) -> {}", size, coeff, constant, if overflow { "Err (exact value exceeds u64)".to_string() } else { exact.to_string() }));
    }
    Ok(())
}

fn price(t: &mut Tape) -> (u64, u64) {
    // numerators / denominators: small realistic ones, boundary classes, non-reduced fractions
    match t.choose(5) {
        0 => (t.range_u64(0, 1000), t.range_u64(1, 10000)),
        1 => {
            let g = t.range_u64(1, 1000);
            (t.range_u64(0, 100) * g, t.range_u64(1, 100) * g)
        }
        2 => (t.u64_class(), t.u64_class().max(1)),
        3 => (0, t.u64_class()),
        _ => (t.u64_class(), t.range_u64(0, 3)),
    }
}

fn exunits(ctx: &mut Ctx, tape: &[u8]) -> CaseResult {
    let mut t = Tape::new(tape);
    let (mn, md) = price(&mut t);
    let (sn, sd) = price(&mut t);
    let prices = ExUnitPrices::new(&UnitInterval::new(&bn(mn), &bn(md)), &UnitInterval::new(&bn(sn), &bn(sd)));
    // a redeemer list; totals may or may not overflow
    let n = 1 + t.choose(4);
    let mut units: Vec<(u64, u64)> = Vec::new();
    for _ in 0..n {
        let mem = t.u64_class();
        let steps = t.u64_class();
        units.push((mem, steps));
    }
    let tot_mem: u128 = units.iter().map(|u| u.0 as u128).sum();
    let tot_steps: u128 = units.iter().map(|u| u.1 as u128).sum();
    let zero_den = md == 0 || sd == 0;
    let totals_overflow = tot_mem > u64::MAX as u128 || tot_steps > u64::MAX as u128;

    // the transaction-level entry point
    let mut redeemers = Redeemers::new();
    let tags = [RedeemerTag::new_spend(), RedeemerTag::new_mint(), RedeemerTag::new_cert(), RedeemerTag::new_reward(), RedeemerTag::new_vote(), RedeemerTag::new_voting_proposal()];
    for (i, (m, s)) in units.iter().enumerate() {
        redeemers.add(&Redeemer::new(&tags[i % 6], &bn(i as u64), &PlutusData::new_integer(&BigInt::from(i as u64)), &ExUnits::new(&bn(*m), &bn(*s))));
    }
    let mut ws = TransactionWitnessSet::new();
    ws.set_redeemers(&redeemers);
    let body = TransactionBody::new_tx_body(&TransactionInputs::new(), &TransactionOutputs::new(), &bn(0));
    let tx = Transaction::new(&body, &ws, None);

    let exact: Option<(NBig, NBig)> = if zero_den {
        None
    } else {
        // mem*mn/md + steps*sn/sd
        let num = NBig::from(tot_mem) * NBig::from(mn) * NBig::from(sd) + NBig::from(tot_steps) * NBig::from(sn) * NBig::from(md);
        let den = NBig::from(md) * NBig::from(sd);
        Some((num, den))
    };
    let got_tx = match catch(|| min_script_fee(&tx, &prices)) {
        Ok(g) => g,
        Err(p) => fail!("exunits/panic", "min_script_fee panicked: {} (units {:?}, prices {}/{} {}/{})", p.msg, units, mn, md, sn, sd),
    };
    // the direct entry point, on the summed units when they fit
    let got_direct = if !totals_overflow {
        match catch(|| calculate_ex_units_ceil_cost(&ExUnits::new(&bn(tot_mem as u64), &bn(tot_steps as u64)), &prices)) {
            Ok(g) => Some(g),
            Err(p) => fail!("exunits/panic", "calculate_ex_units_ceil_cost panicked: {}", p.msg),
        }
    } else {
        None
    };
    let describe = || format!("units={:?} mem_price={}/{} step_price={}/{}", units, mn, md, sn, sd);
    if let Some((num, den)) = exact {
        let c = ceil_div(&num, &den);
        let fits = fits_u64(&c);
        let check = |name: &str, got: &Result<BigNum, JsError>, lenient_err: bool| -> CaseResult {
            match (got, fits) {
                (Ok(v), Some(e)) => {
                    let v: u64 = (*v).into();
                    ensure!(v == e, "exunits/wrong-value", "{}({}) = {} but ceil of the exact cost is {}", name, describe(), v, e);
                }
                (Err(_), None) => {}
                (Ok(v), None) => {
                    let v: u64 = (*v).into();
                    fail!("exunits/number-instead-of-error", "{}({}) = {} but the exact cost {} does not fit u64", name, describe(), v, c)
                }
                (Err(e), Some(x)) => {
                    if !lenient_err {
                        fail!("exunits/error-instead-of-number", "{}({}) = Err({:?}) but the exact cost {} fits", name, describe(), e, x)
                    }
                }
            }
            Ok(())
        };
        check("min_script_fee", &got_tx, totals_overflow)?;
        if let Some(g) = &got_direct {
            check("calculate_ex_units_ceil_cost", g, false)?;
        }
        let integral = (&num % &den).is_zero();
        if totals_overflow {
            ctx.label("exunits:totals-overflow");
        }
        if fits.is_none() {
            ctx.label("exunits:result-overflow");
        }
        if !integral {
            ctx.label("exunits:ceil-matters");
        }
        if !integral || fits.is_none() || totals_overflow {
            ctx.nontrivial(fp64(describe().as_bytes()));
            ctx.sample("exunits", || format!("{} -> {}", describe(), match fits { Some(e) => e.to_string(), None => "Err (exceeds u64)".into() }));
        }
    } else {
        ctx.label("exunits:zero-denominator");
    }
    Ok(())
}

fn gen_size(t: &mut Tape) -> u64 {
    match t.choose(16) {
        0..=8 => {
            let k = t.range_u64(0, 40);
            match t.choose(4) {
                0 => (k * 25600).saturating_sub(1),
                1 => k * 25600,
                2 => k * 25600 + 1,
                _ => k * 25600 + t.range_u64(0, 25599),
            }
        }
        9..=12 => t.range_u64(0, 3_000_000),
        13..=14 => t.u64_class_max(50_000_000),
        _ => {
            // rare: huge sizes up to 2^32 (closed form raises 6/5 to the ~170000th power)
            if t.chance(8) {
                t.u64_class_max(1 << 32)
            } else {
                t.range_u64(0, 10_000_000)
            }
        }
    }
}

fn check_ref(ctx: &mut Ctx, size: u64, pn: u64, pd: u64, label_prefix: &str) -> CaseResult {
    let got = match catch(|| min_ref_script_fee(size as usize, &UnitInterval::new(&bn(pn), &bn(pd)))) {
        Ok(g) => g,
        Err(p) => fail!("ref/panic", "min_ref_script_fee({}, {}/{}) panicked: {}", size, pn, pd, p.msg),
    };
    if pd == 0 {
        ctx.label("ref:zero-denominator");
        return Ok(());
    }
    let (num, den) = ref_script_fee_exact(size, pn, pd, 25600);
    let f = floor_div(&num, &den);
    let fits = fits_u64(&f);
    match (&got, fits) {
        (Ok(v), Some(e)) => {
            let v: u64 = (*v).into();
            ensure!(v == e, "ref/wrong-value", "min_ref_script_fee({}, {}/{}) = {} but the tier-by-tier floor is {}", size, pn, pd, v, e);
        }
        (Err(_), None) => {}
        (Ok(v), None) => {
            let v: u64 = (*v).into();
            fail!("ref/number-instead-of-error", "min_ref_script_fee({}, {}/{}) = {} but exact floor does not fit u64", size, pn, pd, v)
        }
        (Err(e), Some(x)) => {
            // price 0: the closed form multiplies by zero; an Err here is still a wrong answer
            fail!("ref/error-instead-of-number", "min_ref_script_fee({}, {}/{}) = Err({:?}) but the exact floor {} fits", size, pn, pd, e, x)
        }
    }
    let integral = (&num % &den).is_zero();
    if size >= 25600 {
        ctx.label(&format!("{}:size>=25600", label_prefix));
    }
    if !integral {
        ctx.label(&format!("{}:floor-matters", label_prefix));
    }
    if fits.is_none() {
        ctx.label(&format!("{}:overflow", label_prefix));
    }
    if size >= 25600 || !integral || fits.is_none() {
        ctx.nontrivial(fp64(format!("ref|{}|{}|{}", size, pn, pd).as_bytes()));
        ctx.sample(label_prefix, || format!("min_ref_script_fee(size={}, price={}/{}) -> {}", size, pn, pd, match fits { Some(e) => e.to_string(), None => "Err".into() }));
    }
    Ok(())
}

fn ref_script(ctx: &mut Ctx, tape: &[u8]) -> CaseResult {
    let mut t = Tape::new(tape);
    let size = gen_size(&mut t);
    let (pn, pd) = price(&mut t);
    check_ref(ctx, size, pn, pd, "ref")
}

const EDGE_PRICES: [(u64, u64); 12] = [(15, 1), (44, 3), (1, 1), (0, 1), (1, 3), (7, 9), (15, 10), (150, 10), (577, 10000), (1, 25600), (u64::MAX, 1), (1, u64::MAX)];

fn edges_count(_t: Tier) -> u64 {
    401 * 3 * EDGE_PRICES.len() as u64
}

fn edges_make(_t: Tier, i: u64) -> Vec<u8> {
    i.to_le_bytes().to_vec()
}

fn ref_script_edge_case(ctx: &mut Ctx, input: &[u8]) -> CaseResult {
    let i = u64::from_le_bytes(input[..8].try_into().unwrap());
    let p = (i % EDGE_PRICES.len() as u64) as usize;
    let r = i / EDGE_PRICES.len() as u64;
    let off = r % 3;
    let k = r / 3;
    let size = (k * 25600 + off).saturating_sub(1);
    let (pn, pd) = EDGE_PRICES[p];
    check_ref(ctx, size, pn, pd, "edge")
}
