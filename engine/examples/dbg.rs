use engine::scenario::{self, Focus};
use engine::runner::*;
fn main() {
    let hexs = std::env::args().nth(1).unwrap();
    let tape = hex::decode(hexs).unwrap();
    install_panic_hook();
    let h = std::thread::Builder::new().stack_size(1 << 28).spawn(move || {
        let mut focus = Focus::general();
        focus.scripts = 60;
        let o = scenario::run(&tape, focus).unwrap();
        println!("ops {:?}", o.ops);
        println!("balancing {} ok {}", o.balancing, o.balancing_ok);
        println!("tx_error {:?}", o.tx_error);
        if let Some(t) = &o.tx_unsafe {
            println!("unsafe tx {}", hex::encode(t.to_bytes()));
        }
        println!("builder min_fee {:?} fee {:?} full_size {:?}", o.tb.min_fee().map(|x| x.to_str()), o.tb.get_fee_if_set().map(|x| x.to_str()), o.tb.full_size());
    }).unwrap();
    h.join().unwrap();
}
