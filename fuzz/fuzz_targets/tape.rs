#![no_main]
//! One target for every sub-check: VERIF_FUZZ_PROP / VERIF_FUZZ_SUB name the case function the input
//! (a tape) is handed to. See /verif/engine/src/fuzz.rs.
use libfuzzer_sys::fuzz_target;

fuzz_target!(|data: &[u8]| {
    engine::fuzz::one(data);
});
