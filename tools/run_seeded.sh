#!/bin/bash
# tools/run_seeded.sh <seed-dir-name> [property ...]  — applies /verif/seeded/<name>/patch.diff to /repo, runs the quick
# check(s) of the property (default: the property the seed was written for), reverts /repo, records the outcome.
set -u
name=$1; shift
d=/verif/seeded/$name
prop=$(python3 -c "import json;print(json.load(open('$d/meta.json'))['property'])")
props="${*:-$prop}"
cd /repo || exit 2
if ! git diff --quiet; then echo "/repo has uncommitted changes; refusing"; exit 2; fi
git apply $d/patch.diff || { echo "patch does not apply"; exit 2; }
# evidence written while a seed is applied describes a mutated tree: keep the real one aside and put it back
evbak=$(mktemp -d /verif/work/evbak.XXXXXX); cp -a /verif/evidence/. $evbak/ 2>/dev/null
res=""
for p in $props; do
  out=$(cd /verif && ./check $p quick 2>&1); rc=$?
  v=$(echo "$out" | grep -c "^VIOLATION")
  echo "$name vs $p: exit=$rc violations=$v"
  echo "$out" | grep -E "^failure" | cut -c1-300 | head -5
  res="$res $p:exit=$rc"
  # replay files written while a seed is applied do not belong to the unchanged tree
  (cd /verif && git status --porcelain replays | awk '{print $2}' | xargs -r rm -rf)
done
git -C /repo checkout -- .
rm -rf /verif/evidence; mkdir -p /verif/evidence; cp -a $evbak/. /verif/evidence/; rm -rf $evbak
python3 - "$d" "$res" <<'PY'
import json,sys
d,res=sys.argv[1:3]
m=json.load(open(d+"/meta.json")); m["detected_by"]=res.strip(); json.dump(m,open(d+"/meta.json","w"),indent=1)
PY
