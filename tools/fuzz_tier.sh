#!/bin/bash
# tools/fuzz_tier.sh <property-id> [<sub>[:<max_len>] ...]
#
# Coverage-guided part of a thorough tier: libFuzzer campaigns (cargo-fuzz project /verif/fuzz, target `tape`)
# over the same case functions the proptest shards run. Without a sub-check list every tape-driven sub-check of
# the property is fuzzed. Per sub-check: a fresh corpus directory seeded by `vcheck seeds`, W worker processes
# with seeds derived from VERIF_SEED, VERIF_FUZZ_SECS seconds each (default 240). The time budget only bounds the
# search; running out of it is never reported as a violation.
#
# Failing inputs are stored by the target (engine/src/fuzz.rs) as replay files, crash artifacts are converted to
# replay files here, and each is then replayed in a fresh process by `vcheck replay`: only what reproduces there
# is reported (VIOLATION line, exit 1; KNOWN-FINDING line for listed findings). evidence/<id>.json gets a
# coverage.fuzz section and the executions are added to its totals.
set -u
id=$1; shift
V=/verif
SECS=${VERIF_FUZZ_SECS:-240}
W=${VERIF_FUZZ_WORKERS:-16}
SEED=${VERIF_SEED:-1}
export CARGO_NET_OFFLINE=true
cd $V || exit 2
mkdir -p work
t0=$(date +%s)
( cd fuzz && cp -f ../engine/Cargo.lock Cargo.lock && cargo +nightly fuzz build --fuzz-dir $V/fuzz --sanitizer none tape > $V/work/fuzz-build.log 2>&1 )
if [ $? -ne 0 ]; then echo "fuzz target build failed; see /verif/work/fuzz-build.log" >&2; tail -n 20 work/fuzz-build.log >&2; exit 2; fi
BIN=$V/fuzz/target/x86_64-unknown-linux-gnu/release/tape
VC=$V/engine/target/release/vcheck
if [ $# -eq 0 ]; then
  subs=$($VC tapes $id | awk '{print $1":"$2}')
else
  subs="$*"
fi
rc_final=0
root=$V/work/fuzz/$id
rm -rf $root; mkdir -p $root
for spec in $subs; do
  sub=${spec%%:*}; max_len=${spec##*:}
  if [ "$max_len" = "$sub" ]; then max_len=$($VC tapes $id | awk -v s=$sub '$1==s{print $2}'); fi
  [ -z "$max_len" ] && max_len=4096
  d=$root/$sub; mkdir -p $d/corpus $d/artifacts $d/found $d/logs
  VERIF_SEED=$SEED $VC seeds $id $sub $max_len $d/corpus > /dev/null
  pids=""
  for i in $(seq 1 $W); do
    ( cd $d && VERIF_FUZZ_PROP=$id VERIF_FUZZ_SUB=$sub VERIF_FUZZ_DIR=$d timeout -k 30 $((SECS + 900)) $BIN corpus \
        -artifact_prefix=artifacts/ -max_len=$max_len -len_control=0 -max_total_time=$SECS -timeout=600 \
        -rss_limit_mb=3500 -reload=1 -seed=$((SEED * 1000 + i)) -print_final_stats=1 > logs/worker-$i.log 2>&1 ) &
    pids="$pids $!"
  done
  wait $pids
done
t1=$(date +%s)
# triage: everything the campaigns stored is replayed in a fresh process; only what reproduces is reported
mkdir -p $V/replays/$id
PY=python3; command -v python3-vt >/dev/null 2>&1 && PY=python3-vt
$PY - "$id" "$root" "$((t1 - t0))" "$SEED" "$SECS" "$W" <<'PY'
import glob, json, os, subprocess, sys, hashlib, re
try:
    import numpy as np
except Exception:
    np = None
def load_fps(files):
    """set of 8-byte fingerprints (numpy array of u64 when numpy is there, else a python set)"""
    if np is not None:
        arrs = [np.fromfile(f, dtype="<u8") for f in files if os.path.getsize(f) >= 8]
        return np.unique(np.concatenate(arrs)) if arrs else np.zeros(0, dtype="<u8")
    out = set()
    for f in files:
        b = open(f, "rb").read()
        for i in range(0, len(b) - 7, 8):
            out.add(b[i:i + 8])
    return out
def union(a, b):
    return np.union1d(a, b) if np is not None else (a | b)
def minus_count(a, b):
    return int(len(np.setdiff1d(a, b, assume_unique=True))) if np is not None else len(a - b)
id, root, wall, seed, secs, workers = sys.argv[1], sys.argv[2], int(sys.argv[3]), int(sys.argv[4]), int(sys.argv[5]), int(sys.argv[6])
V = "/verif"; VC = V + "/engine/target/release/vcheck"
rc = 0
report = {"engine": "libFuzzer (cargo-fuzz, target tape, sanitizer none, debug assertions on)", "seconds_per_subcheck": secs, "workers": workers, "subchecks": {}}
violations = 0
engine_bugs = []
fps_all = load_fps([])
total_exec = 0
for d in sorted(glob.glob(root + "/*/")):
    sub = os.path.basename(d.rstrip("/"))
    st = {"executions": 0, "rejected": 0, "failing_cases": 0, "nontrivial_total": 0, "known_hits": {}, "labels": {}, "new_signatures": set()}
    samples = {}
    for f in glob.glob(d + "stats-*.json"):
        try:
            j = json.load(open(f))
        except Exception:
            continue
        for k in ("executions", "rejected", "failing_cases", "nontrivial_total"):
            st[k] += j.get(k, 0)
        for k, v in j.get("known_hits", {}).items():
            st["known_hits"][k] = st["known_hits"].get(k, 0) + v
        for k, v in j.get("labels", {}).items():
            st["labels"][k] = st["labels"].get(k, 0) + v
        st["new_signatures"].update(j.get("new_signatures", []))
        for k, v in j.get("samples", {}).items():
            if len(samples) < 12 and k not in samples and v:
                samples[k] = v[0]
    fps = load_fps(glob.glob(d + "fps-*.bin"))
    fps_all = union(fps_all, fps)
    cov = 0; corp = 0
    for f in glob.glob(d + "logs/worker-*.log"):
        for line in open(f, errors="replace"):
            m = re.search(r"cov: (\d+) ft: (\d+) corp: (\d+)", line)
            if m:
                cov = max(cov, int(m.group(1)))
    corp = len(os.listdir(d + "corpus"))
    # crash / oom / timeout artifacts -> replay files
    for a in sorted(glob.glob(d + "artifacts/*")):
        data = open(a, "rb").read()
        kind = os.path.basename(a).split("-")[0]
        p = d + "found/%s-fuzz-artifact-%s.json" % (sub, hashlib.sha1(data).hexdigest()[:16])
        json.dump({"property": id, "subcheck": sub, "tier": "thorough", "input_hex": data.hex(), "signature": "%s/abort/fuzz-%s-artifact" % (sub, kind), "detail": "libFuzzer artifact " + os.path.basename(a)}, open(p, "w"), indent=1)
    reproduced = []; not_reproduced = 0; known = set()
    for f in sorted(glob.glob(d + "found/*.json")):
        dest = "%s/replays/%s/%s" % (V, id, os.path.basename(f))
        open(dest, "w").write(open(f).read())
        try:
            r = subprocess.run([VC, "replay", dest], capture_output=True, text=True, timeout=1800)
        except subprocess.TimeoutExpired:
            print("fuzz tier: replay of %s did not finish in 1800 s: inconclusive" % dest, file=sys.stderr)
            os.remove(dest); rc = max(rc, 2); continue
        if r.returncode == 1:
            sys.stdout.write(r.stdout)
            reproduced.append(dest); violations += 1; rc = 1
        else:
            os.remove(dest)
            if r.returncode == 0:
                ks = [l for l in r.stdout.splitlines() if l.startswith("KNOWN-FINDING")]
                if ks:
                    known.update(ks)
                else:
                    not_reproduced += 1
            else:
                sys.stderr.write(r.stderr); rc = max(rc, 2)
    for k in sorted(known):
        print(k)
    for f in glob.glob(d + "engine-bug-*.txt"):
        engine_bugs.append(open(f).read()[:400])
    total_exec += st["executions"]
    top = sorted(st["labels"].items(), key=lambda kv: -kv[1])[:40]
    report["subchecks"][sub] = {
        "executions": st["executions"], "rejected": st["rejected"], "nontrivial_total": st["nontrivial_total"], "distinct_nontrivial": len(fps),
        "failing_cases_tolerated_in_target": st["failing_cases"], "known_finding_hits": st["known_hits"],
        "new_signatures_seen": sorted(st["new_signatures"]), "reproduced_in_fresh_process": reproduced, "stored_but_not_reproduced": not_reproduced,
        "edge_coverage": cov, "corpus_files_at_end": corp, "labels_top": dict(top), "samples": samples,
    }
if engine_bugs:
    print("fuzz tier: engine bug(s) in the harness, not a verdict on the library:\n" + "\n".join(engine_bugs), file=sys.stderr)
    rc = max(rc, 2)
report["wall_s"] = wall
report["executions"] = total_exec
report["distinct_nontrivial"] = len(fps_all)
ev_path = "%s/evidence/%s.json" % (V, id)
try:
    ev = json.load(open(ev_path))
    cov = ev.setdefault("coverage", {})
    # the shard fingerprints are still on disk: count only fuzz cases the shards did not already produce
    shard_fps = load_fps(glob.glob("%s/work/%s-thorough/shard-*.fps" % (V, id)))
    new = minus_count(fps_all, shard_fps) if len(shard_fps) else 0
    report["distinct_nontrivial_not_seen_by_shards"] = new
    cov["fuzz"] = report
    cov["evaluations"] = cov.get("evaluations", 0) + total_exec
    cov["distinct_nontrivial"] = cov.get("distinct_nontrivial", 0) + new
    ev["wall_s"] = ev.get("wall_s", 0) + wall
    ev["violations"] = ev.get("violations", 0) + violations
    json.dump(ev, open(ev_path, "w"), indent=1)
    os.makedirs("%s/evidence/thorough" % V, exist_ok=True)
    json.dump(ev, open("%s/evidence/thorough/%s.json" % (V, id), "w"), indent=1)
except Exception as e:
    print("fuzz tier: cannot update %s: %s" % (ev_path, e), file=sys.stderr)
    rc = max(rc, 2)
print("%s fuzz tier: executions=%d distinct_nontrivial=%d violations=%d wall=%ds" % (id, total_exec, len(fps_all), violations, wall))
sys.exit(rc)
PY
rc_final=$?
rmdir $V/replays/$id 2>/dev/null
exit $rc_final
