#!/bin/bash
# seed_pipeline.sh <Cxx> <V> ... : verify (scratch worktree) then try against the dev engine (serialised by a lock)
id=$1; shift
for v in "$@"; do
  if [ ! -f /tmp/seed/$id-out/$v/patch.diff ]; then echo "PIPE $id-$v no-output"; continue; fi
  r=$(cd /verif && JOBS=6 tools/verify_seed.sh $id $v 2>&1 | tail -1)
  echo "PIPE $r"
  case "$r" in *" confirmed") flock /root/vdev3/.trylock /root/vdev3/tools/try_seed_scratch.sh $id $v ;; esac
done
