#!/usr/bin/env python3
"""Writes /verif/MANIFEST.json from the table below (kept in one place so it stays valid)."""
import json, os, subprocess

HERE = os.path.dirname(os.path.dirname(os.path.abspath(__file__)))

# property id -> (technique, level text, level note, design ref)
CLAIMED = {
    "C13": (
        "proptest-driven generation of UTxO sets and configurations for create_send_all + ledger oracle on every emitted transaction, really signed",
        "Generated-input search: UTxO sets of 1-400 entries (pure ADA, many policies, many assets per policy, long names, dust, all owner kinds incl. Byron with derivation-path attributes, shared payment keys) and configurations (fee coefficients incl. 0, coins per byte incl. 0, max value / tx size small enough to force splitting) go through create_send_all, several executions per case on fresh threads (hash-map order). With the batch re-parsed by the engine's CBOR reader: every supplied UTxO spent exactly once, only the target address paid, each transaction balanced in lovelace and every asset against the scenario's own values, fee >= a*size+b for the transaction really signed (make_vkey_witness / make_icarus_bootstrap_witness, one per distinct owning key), size <= max_tx_size, every value <= max_value_size, every output >= its minimum ADA. Count / width boundaries (23/24/25, 255/256/257 inputs, witnesses, policies, assets) are labelled and required. Exploration is the right level: the batcher predicts sizes with its own arithmetic model, whose agreement with real serialization can only be sampled at boundaries the generator aims at.",
        "Trusts the engine's CBOR reader, cryptoxide (blake2b, Ed25519) and the scenario's own outpoint -> value map. Err results are accepted (the property is about success).",
        "DESIGN.md \u00a75 C13",
    ),
    "C07": (
        "proptest-driven tape generation of outputs and configurations + bounded-exhaustive width-border / address-length sweeps + builder scenarios, with the (160 + size) x coins_per_byte bound evaluated on the emitted bytes",
        "Generated-input search: outputs (every address kind and length incl. long Byron and malformed, coin widths, bundles, datum hash / inline datum, script reference) and configurations (coins per byte in width classes and aimed at the 256 / 65536 / 2^32 borders of cpb x (160 + size), max value size, max tx size) go through min_ada_for_output / MinOutputAdaCalculator, add_output, add_mint_asset_and_output, the two collateral-return helpers (max_value_size placed at / 1 / 2..10 bytes below the return's size, return coins walked around the minimum), the output builder's min-coin helper and full builder scenarios (change, collateral return, minted-asset outputs); each emitted output is re-read with the engine's CBOR reader and must satisfy coin >= cpb x (160 + size), the returned minimum must not exceed the bound at the 8-byte coin, every emitted value must fit max_value_size and every built transaction max_tx_size. An exhaustive sweep (cpb 1..=700 x 12 shapes x padded bundles x 6 start coins; 110 addresses x 6 feature sets x 3 cpb) covers the fixed-point borders. Exploration is the right level: the function is a fixed point over its own encoded width, cheap to evaluate, and its failures sit on width borders the generators aim at.",
        "Trusts the engine's CBOR reader for size and coin; u128 arithmetic. Known finding: the output builder's helper sizes with a 57-byte placeholder address (known_findings.json).",
        "DESIGN.md \u00a75 C07",
    ),
    "C19": (
        "proptest-driven collateral histories (tape-decoded operation sequences over the three helper routes and the raw setters) + whole-value conservation oracle on the emitted body",
        "Generated-input search over histories: configuration, 0-4 collateral inputs (pure ADA and asset-carrying, width-class amounts), fee requests, 0-3 earlier operations (raw setters, removals, replacing the collateral set, change, any helper), then the route under test (explicit return, explicit total, percentage helper), optionally balancing afterwards. The built body is parsed with the engine's CBOR reader; with C the 128-bit sum of the scenario's own values of the outpoints under key 13: C = return + total as whole values (total pure lovelace, every asset of C and nothing else in the return), return coin >= cpb x (160 + size), percentage route total >= ceil(fee x pct / 100), and after Err neither key 16 nor key 17 is present. Exploration is the right level: three independently settable fields over unbounded histories cannot be enumerated.",
        "Trusts the engine's CBOR reader and the scenario's own outpoint -> value map. Precondition: raw setters / collateral replacement happen only before the helper under test (the helper then owns both fields).",
        "DESIGN.md \u00a75 C19",
    ),
    "C20": (
        "bounded-exhaustive single-item / ordered-pair tables at CBOR width and 2^64 boundaries + proptest-driven certificate / withdrawal / proposal sequences against the engine's Conway deposit table in exact integers",
        "Generated-input search: bodies with certificate sequences over all 19 wire kinds (explicit and parameter-based amounts, key and script credentials), withdrawal maps and proposal lists, pool/key deposit parameters in width classes, sums steered to 2^64-1+d. The stand-alone get_deposit / get_implicit_input and the builder's get_deposit / get_implicit_input / get_explicit_input-side figures must equal the engine's table evaluated in unbounded integers (kinds and coins read from the emitted CBOR, not from getters), and must be Err exactly when the exact total exceeds 2^64-1; helper and builder must agree. The builder is also fed corrected histories (a withdrawal entered with another amount and corrected, a proposal offered twice, sub-builders set twice): its figures must describe the final state. Every single item and every ordered pair of item kinds is enumerated at boundary amounts. Exploration is the right level: cheap pure functions, failures sit at kind pairs and overflow edges the tables enumerate.",
        "Trusts the engine's transcription of the Conway deposit / refund table (DESIGN 3.3) and its CBOR reader; every pool registration counts as a first registration, as the property fixes.",
        "DESIGN.md \u00a75 C20",
    ),
    "C05": (
        "proptest-driven builder scenarios + independent per-asset preservation-of-value oracle on the emitted bytes",
        "Generated builder scenarios (tape-decoded parameters, keyring, UTxO universe the scenario owns, operation sequence through every public route incl. certificates, withdrawals, mint/burn, votes, proposals, collateral, fee requests, the 7 balancing routes) are applied to the real TransactionBuilder; the emitted transaction is parsed by the engine's own CBOR reader and judged by the engine's ledger oracle, which never asks the library for a sum, size, deposit, fee or hash. For every transaction produced (build_tx, build, build_tx_unsafe) after a balancing call reported success, inputs + withdrawals + refunds + mint = outputs + fee + deposits + burn + donation must hold exactly for lovelace and every asset, with UTxO values taken from the scenario's own map.",
        "Trusts the engine's ledger oracle (ledger.rs: Conway deposit table, witsVKeyNeeded, fee formula, language views, pointer rules) and cryptoxide's blake2b / Ed25519 for real signatures; scenario preconditions are listed in the evidence assumptions.",
        "DESIGN.md \u00a75 C05",
    ),
    "C06": (
        "proptest-driven builder scenarios + ledger minimum-fee oracle on the really signed transaction",
        "Generated builder scenarios (tape-decoded parameters, keyring, UTxO universe the scenario owns, operation sequence through every public route incl. certificates, withdrawals, mint/burn, votes, proposals, collateral, fee requests, the 7 balancing routes) are applied to the real TransactionBuilder; the emitted transaction is parsed by the engine's own CBOR reader and judged by the engine's ledger oracle, which never asks the library for a sum, size, deposit, fee or hash. The built fee must be at least the ledger minimum (linear fee of the size after adding real vkey / bootstrap witnesses for the ledger's required signer set, plus exact ex-unit cost, plus tiered reference-script fee); set_fee must be used exactly and set_min_fee honoured as a lower bound.",
        "Trusts the engine's ledger oracle (ledger.rs: Conway deposit table, witsVKeyNeeded, fee formula, language views, pointer rules) and cryptoxide's blake2b / Ed25519 for real signatures; scenario preconditions are listed in the evidence assumptions.",
        "DESIGN.md \u00a75 C06",
    ),
    "C09": (
        "proptest-driven builder scenarios + recomputation of script-integrity and auxiliary-data hashes from the emitted bytes",
        "Generated builder scenarios (tape-decoded parameters, keyring, UTxO universe the scenario owns, operation sequence through every public route incl. certificates, withdrawals, mint/burn, votes, proposals, collateral, fee requests, the 7 balancing routes) are applied to the real TransactionBuilder; the emitted transaction is parsed by the engine's own CBOR reader and judged by the engine's ledger oracle, which never asks the library for a sum, size, deposit, fee or hash. Body key 11 must equal blake2b256(redeemer bytes | datum bytes | language views of the languages in use) recomputed from the emitted witness set with the engine's own language-view encoder, and body key 7 must equal blake2b256 of the attached auxiliary-data bytes. A second sub-check compares the stand-alone helpers (hash_script_data, hash_plutus_data, hash_auxiliary_data) with blake2b256 over bytes cut out of a serialized witness set / transaction and the engine's own language views, for 0-3 redeemers, 0-3 datums and every subset of V1-V3 cost models (incl. the documented no-redeemer form).",
        "Trusts the engine's ledger oracle (ledger.rs: Conway deposit table, witsVKeyNeeded, fee formula, language views, pointer rules) and cryptoxide's blake2b / Ed25519 for real signatures; scenario preconditions are listed in the evidence assumptions.",
        "DESIGN.md \u00a75 C09",
    ),
    "C10": (
        "proptest-driven builder scenarios with marker-carrying redeemers + ledger pointer resolution on the emitted body",
        "Generated builder scenarios (tape-decoded parameters, keyring, UTxO universe the scenario owns, operation sequence through every public route incl. certificates, withdrawals, mint/burn, votes, proposals, collateral, fee requests, the 7 balancing routes) are applied to the real TransactionBuilder; the emitted transaction is parsed by the engine's own CBOR reader and judged by the engine's ledger oracle, which never asks the library for a sum, size, deposit, fee or hash. Every redeemer carries a unique integer naming the item it was attached to; its (tag, index) is resolved against the built body under the ledger's pointer rules and must designate exactly that item, with pairwise distinct pointers.",
        "Trusts the engine's ledger oracle (ledger.rs: Conway deposit table, witsVKeyNeeded, fee formula, language views, pointer rules) and cryptoxide's blake2b / Ed25519 for real signatures; scenario preconditions are listed in the evidence assumptions.",
        "DESIGN.md \u00a75 C10",
    ),
    "C16": (
        "proptest-driven insertion histories against an insertion-ordered-set model, canonical-order checks on emitted asset maps, repeated builds of generated builder scenarios",
        "Generated histories with repeats enter every set-like type by add, from_bytes (tagged / untagged arrays repeating elements) and from_json; the emitted array must hold distinct elements in first-insertion order, len() and add's return value must follow the model; a set that arrived decoded goes on receiving add() for the whole pool (members refused, others appended); witness-set setters must emit repeated scripts / datums once; asset and mint maps must be canonically ordered at both levels; generated builder scenarios are built repeatedly (same object, clones) and must give byte-identical transactions.",
        "Element equality is byte equality of the canonical encoding; hasher-state dependence is sampled by repeated builds within one process.",
        "DESIGN.md \u00a75 C16",
    ),
    "C18": (
        "proptest-driven builder scenarios + witness-completeness and exact-size oracle on the emitted transaction",
        "Generated builder scenarios (tape-decoded parameters, keyring, UTxO universe the scenario owns, operation sequence through every public route incl. certificates, withdrawals, mint/burn, votes, proposals, collateral, fee requests, the 7 balancing routes) are applied to the real TransactionBuilder; the emitted transaction is parsed by the engine's own CBOR reader and judged by the engine's ledger oracle, which never asks the library for a sum, size, deposit, fee or hash. Each script item must have its script exactly once (witness set by hash, or its reference input in body key 18), Plutus items exactly one redeemer and their witness datum once, nothing superfluous; with S the byte length of the transaction really signed by exactly the ledger's required set, S <= full_size() < S + 101.",
        "Trusts the engine's ledger oracle (ledger.rs: Conway deposit table, witsVKeyNeeded, fee formula, language views, pointer rules) and cryptoxide's blake2b / Ed25519 for real signatures; scenario preconditions are listed in the evidence assumptions.",
        "DESIGN.md \u00a75 C18",
    ),
    "C01": (
        "proptest-driven tape generation of typed values + bounded-exhaustive presence-mask / variant sweeps, round-trip oracle",
        "Generated-input search over ~140 public types: each generated value is encoded, checked for well-formedness by an independent CBOR reader, decoded, compared (library equality with empty optional collections counted as absent), re-encoded (byte equality) and passed through the hex entry points in both letter cases. The byte-preserving transaction type is covered through histories (sub-check fixed_tx: a generated transaction loaded by from_bytes / new / new_with_auxiliary, then 0-5 more key / bootstrap witnesses through every adder, wire round trips in between). All 2^18 presence masks of TransactionBody, the low/high-weight masks of ProtocolParamUpdate and all short boundary tapes of every certificate / governance action / relay / native script variant are enumerated. Exploration is the right level: the space is unbounded and the oracle is a cheap executable round trip.",
        "Trusts the engine's CBOR reader (unit-tested against RFC 8949 Appendix A) and the library's PartialEq as the notion of equality; nesting depth and collection sizes are bounded (evidence states the bounds).",
        "DESIGN.md §5 C01",
    ),
    "C02": (
        "bounded-exhaustive short inputs + proptest-driven structure-aware mutation of valid encodings + grammar-generated adversarial CBOR + malformed text, with a no-panic / well-formed-reserialization oracle in crash-isolated shard processes",
        "Generated-input search over every public parsing entry point (from_bytes / from_hex / from_json of ~140 types, bech32 / base58 / decimal parsers, the JSON schema helpers, key and FixedTransaction constructors): all inputs of length <= 2 exhaustively, millions of mutated valid encodings (tree edits and byte edits), schema-free adversarial CBOR nested to 256, mutated JSON / hex / bech32 / base58 text. Each call must return, and an accepted value must re-serialize without panic into well-formed CBOR (checked by the engine's own reader). Shards are child processes with a crash journal, so an abort is attributed to its input. Exploration is the right level: totality over all byte strings cannot be enumerated; thorough adds libFuzzer campaigns over the same case functions.",
        "Inputs declaring a string longer than 2^32 bytes beyond the input are excluded and counted (known finding in cbor_event: allocation of the declared length aborts the process); nesting deeper than 256 is outside the explored domain; a hang would surface as a watchdog expiry (exit 2).",
        "DESIGN.md §5 C02",
    ),
    "C03": (
        "proptest-driven tape generation of typed values validated by an independent schema-directed Conway CDDL validator",
        "Generated-input search: bytes emitted for typed values of every type that has a schema rule (and, via sub-check builder_tx, every transaction the builder scenarios produce) are parsed by the engine's own CBOR reader and validated node by node against the engine's transcription of the Conway CDDL (keys, arities, tags, ranges, size bounds, shortest definite encoding with the two Plutus exceptions, tag 258 + distinct elements for sets). Rule coverage is reported. Exploration is the right level: conformance of an encoder to a grammar over an unbounded value space.",
        "The oracle is the engine's own transcription of the CDDL (DESIGN.md Appendix A) with the stated leniencies for pre-Conway forms; it shares no code with the library or cbor_event.",
        "DESIGN.md §5 C03, Appendix A",
    ),
    "C04": (
        "proptest-driven generation of transactions re-emitted in non-canonical encodings + generated add-signature histories, checked against byte offsets from an independent CBOR reader and an independent blake2b",
        "Generated-input search over (encoding, history): a generated transaction is re-emitted by the engine's CBOR writer with tape-chosen non-canonical detail (non-minimal heads, indefinite containers, rotated map keys, chunked strings, untagged sets, legacy 3-element array, empty arrays under witness keys, duplicate witnesses); after every operation of a generated history (sign / add vkey, Icarus / Daedalus bootstrap, repeats, reload, set_body) the raw body, raw auxiliary data, every untouched witness field (byte slices located by the engine's reader) and blake2b256(original body) are compared. Plutus data in non-canonical forms must re-encode byte-identically, stand-alone and embedded; FixedBlock bodies keep their original bytes and hashes.",
        "Trusts cryptoxide's blake2b and the engine's CBOR reader/writer. Inputs rejected by the byte-preserving decoders are rejects (counted, kept below 35 %).",
        "DESIGN.md §5 C04",
    ),
    "C08": (
        "proptest-driven generation of (UTxO set, outputs, strategy, random schedule) with the library's thread RNG replaced by a harness-fed schedule (verif-hooks), soundness oracle over the builder's real input set",
        "Generated-input and generated-schedule search: the random words consumed by the random-improve strategies are part of the generated, shrinkable input, so every selection / improvement-swap / fee-top-up outcome is reachable and replayable. Scenarios include pre-existing inputs, deposits, withdrawals (implicit input) and a caller-requested minimum fee at or below the real fee. Offered UTxOs may carry tokens under every strategy and reference scripts (with a price); the combined select-and-change entry points are judged inside whole builder histories (sub-check combined, C06's fee oracle). On success the builder's actual inputs (read back from a built body, valued from the scenario's own UTxO map) must contain the earlier inputs, add only distinct offered UTxOs, and cover outputs + deposits + min_fee() in lovelace and every requested asset; largest-first must add a top-k set that is minimal, and may report insufficiency only if all offered UTxOs do not suffice. The swap-then-top-up class the property singles out is measured.",
        "Trusts the hook's gen_range mapping (monotone floor(word*n/2^64)); amounts below 2^40; offered UTxOs form a set.",
        "DESIGN.md §5 C08",
    ),
    "C11": (
        "bounded-exhaustive header x length grid + proptest-driven typed / pointer / Byron / Bech32 generation against an engine-side reference address classifier",
        "Generated-input search: all 256 header bytes x payload lengths 0..80 (several payload fillings per cell) and generated typed addresses, pointer varints over the full u64 range, hand-assembled Byron CBOR (attributes, CRC, trailing bytes) and Bech32 strings are classified by the engine's own reference (nibble dispatch, varint reader, CRC-32, strict Byron parse) and compared with every stand-alone parser and with the same bytes embedded in outputs, bodies, pool params and withdrawals.",
        "Trusts the engine's reference classifier (written from the CDDL / CIP-19, unit-tested against published vectors) and its Bech32 / Base58 encoders.",
        "DESIGN.md §5 C11",
    ),
    "C12": (
        "proptest-driven generation of keys, messages, derivation paths and encryption parameters with algebraic oracles (sign/verify, public/private derivation agreement, codec inverses, decrypt-encrypt)",
        "Generated-input search: for keys of every kind derived from tape bytes, signatures must verify and fail under another message / key / flipped bit; witness helpers must sign exactly the 32 hash bytes; soft derivation must commute with to_public along paths of depth <= 6 and hard indices must be refused on the public side; every key / signature encoding must round-trip; password encryption must round-trip and reject modified containers and other passwords (PBKDF2 cases bounded by count).",
        "No independent Ed25519-BIP32 implementation is available offline: a primitive that is self-consistently wrong would pass; cryptoxide / ed25519-bip32 are the trusted base (the repository's literal test vectors cover that side).",
        "DESIGN.md §5 C12",
    ),
    "C14": (
        "proptest-driven tape generation over width classes + boundary-point enumeration against u128/i128/num-bigint reference arithmetic and an independent CBOR reader",
        "Generated-input search: BigNum/Int/BigInt/Value operations and codecs are compared with exact reference arithmetic; every Int obtained through any public route (constructors, decimal strings, CBOR incl. non-minimal heads, JSON, metadata JSON numbers and keys, MintBuilder accumulation, Mint JSON) is checked for range and for exact survival through to_str/from_str, CBOR (read back independently) and JSON; Value laws (commutativity, associativity, subtraction undoing addition, comparison vs component-wise order) are checked against a BTreeMap model.",
        "Trusts num-bigint and 128-bit machine arithmetic. Asset clamping in Value::checked_sub is documented library behaviour and not counted as silent saturation; BigNum::div_floor by zero is outside the domain.",
        "DESIGN.md §5 C14",
    ),
    "C17": (
        "proptest-driven generation of typed values, metadata trees, datums and schema-grammar JSON with round-trip / identity / rejection oracles",
        "Generated-input search: from_json(to_json(v)) must equal v and give the same CBOR for every typed value whose map-typed parts were filled in ascending key order (content equality up to map order otherwise); JSON in each metadata schema's normal form must survive JSON -> metadata -> JSON, metadata must survive metadata -> JSON -> metadata under NoConversions (up to object member order) and DetailedSchema, every datum must survive DetailedSchema JSON, arbitrary bytes must survive the 64-byte chunk helpers, and ~80 classes of out-of-schema documents must be refused or decode to an equal document.",
        "The normal forms are derived from the library's documented schema rules; 'ascending' means the key type's own order in the library.",
        "DESIGN.md §5 C17",
    ),
    "C15": (
        "proptest-driven tape generation + bounded-exhaustive tier-edge enumeration against an exact big-integer reference",
        "Generated-input search: argument tuples over every CBOR width class and every 25 KiB tier edge are compared with a tier-by-tier exact reference (value equality, and Err exactly when the exact value exceeds u64). Exploration is the right level: the functions are pure and cheap, so millions of cases per run cover the boundary structure; absence of a defect in an untested 64-bit point is not established.",
        "Trusts num-bigint and the engine's transcription of the ledger formulas (cross-checked against a naive BigRational loop in the engine's unit tests). Zero denominators and ex-unit totals above 2^64-1 are outside the stated domain.",
        "DESIGN.md §5 C15",
    ),
}

PENDING_REASON = "check under construction in this session (engine module not yet registered); see DESIGN.md §11 for the construction order"


def main():
    ids = [json.loads(l)["id"] for l in open(os.path.join(HERE, "properties.jsonl"))]
    try:
        hook_commit = subprocess.check_output(
            ["git", "-C", "/repo", "log", "--format=%H", "--grep=^verif hook", "-n", "5"], text=True
        ).split()
    except Exception:
        hook_commit = []
    checks = []
    for pid in ids:
        if pid not in CLAIMED:
            continue
        technique, text, note, ref = CLAIMED[pid]
        checks.append(
            {
                "property_id": pid,
                "quick_cmd": f"./check {pid} quick",
                "thorough_cmd": f"./check {pid} thorough",
                "evidence_file": f"/verif/evidence/{pid}.json",
                "replay_cmd_template": "./check replay {path}",
                "engine": "vcheck",
                "level_claimed": {"category": "exploration", "text": text, "design_ref": ref},
                "level_note": note,
                "technique": technique + "; thorough tier adds coverage-guided libFuzzer (cargo-fuzz) campaigns over the same case functions and oracle",
            }
        )
    manifest = {
        "version": 1,
        "setup_cmd": "./check build",
        "hooks": {
            "guard": "cargo feature verif-hooks (rust/Cargo.toml)",
            "enable": "the engine crate depends on /repo/rust with features = [\"verif-hooks\"]; every check command starts with cargo build --release --offline in /verif/engine, which recompiles /repo's working tree",
            "baseline_off_cmd": "cd /repo/rust && cargo test --workspace --no-fail-fast --offline",
            "source_commits": hook_commit,
            "add_only": True,
        },
        "engines": [
            {
                "name": "vcheck",
                "path": "/verif/engine",
                "serves_properties": [c["property_id"] for c in checks],
                "kind_free_text": "Rust crate: tape-based generators driven by proptest (TestRunner, fixed seeds, 16 shard processes), independent CBOR reader / Conway schema validator / ledger oracle, one cargo-fuzz (libFuzzer) target over the same case functions for thorough tiers (fuzz/, tools/fuzz_tier.sh)",
            }
        ],
        "checks": checks,
        "notes": "All checks: ./check <id> quick|thorough (thorough = fixed-work shard tier, then libFuzzer campaigns of VERIF_FUZZ_SECS seconds per sub-check, default 240; VERIF_NO_FUZZ=1 skips them). Exit 0 = held on everything explored (KNOWN-FINDING lines for findings listed in known_findings.json), exit 1 + VIOLATION line otherwise, exit 2 = infrastructure trouble / inconclusive. VERIF_SEED selects the PRNG stream. Replays: ./check replay <file>.",
        "not_applicable": [{"property_id": pid, "reason": PENDING_REASON} for pid in ids if pid not in CLAIMED],
    }
    with open(os.path.join(HERE, "MANIFEST.json"), "w") as f:
        json.dump(manifest, f, indent=1)
        f.write("\n")


if __name__ == "__main__":
    main()
