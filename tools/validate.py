#!/usr/bin/env python3
"""Validates MANIFEST.json and evidence/*.json against the schemas in /root/.vp."""
import json, sys, glob
sys.path.insert(0, "/opt/veriftools/pyvenv/lib/python3.11/site-packages")
import jsonschema
ok = True
m = json.load(open("/verif/MANIFEST.json"))
jsonschema.validate(m, json.load(open("/root/.vp/MANIFEST.schema.json")))
print("MANIFEST ok:", len(m["checks"]), "checks,", len(m.get("not_applicable", [])), "not applicable")
es = json.load(open("/root/.vp/EVIDENCE.schema.json"))
for f in sorted(glob.glob("/verif/evidence/*.json")):
    try:
        jsonschema.validate(json.load(open(f)), es)
        print("evidence ok:", f)
    except Exception as e:
        ok = False
        print("evidence INVALID:", f, str(e)[:300])
sys.exit(0 if ok else 1)
