#!/bin/bash
# tools/run_all_seeds.sh [seed-name ...] — sensitivity self-test: every stored seeded change (default: all of
# seeded/*) is applied to /repo in turn, the property's quick check must turn red, /repo is restored.
# Prints one line per seed and exits 1 if any seed went undetected. Never run while another check is running
# (checks rebuild from /repo's working tree).
cd /verif || exit 2
seeds="$*"; [ -z "$seeds" ] && seeds=$(ls seeded)
missed=0
for s in $seeds; do
  out=$(tools/run_seeded.sh $s 2>&1)
  line=$(echo "$out" | grep -E " vs C[0-9]+: " | head -1)
  echo "$line"
  echo "$line" | grep -q "exit=1" || { missed=$((missed+1)); echo "  -> NOT DETECTED: $s"; }
done
git -C /repo status --short | grep -v "Cargo.lock" && echo "WARNING: /repo not clean"
echo "undetected seeds: $missed"
[ $missed -eq 0 ]
