#!/bin/bash
# tools/try_seed_scratch.sh <Cxx> <V> [property]  — development aid (not a registered check): runs the quick check of a
# property against a seeded change WITHOUT touching /repo: the change is applied in the scratch worktree /tmp/seed/<Cxx>,
# a development copy of the engine (this worktree, VERIF_ROOT) is pointed at it, rebuilt and run. The official record is
# still tools/run_seeded.sh (applies to /repo itself).
set -u
id=$1; v=$2; prop=${3:-$1}
root=$(cd "$(dirname "$0")/.." && pwd)
wt=/tmp/seed/$id
patch=/verif/seeded/$id-$v/patch.diff
[ -f $patch ] || patch=/tmp/seed/$id-out/$v/patch.diff
cd $wt || exit 2
git checkout -q -- . ; git clean -fdq rust/src
git apply $patch || { echo "TRY $id-$v patch-does-not-apply"; exit 2; }
cd $root/engine
# the library's artifact name carries no hash (cdylib + rlib): artifacts of different path sources overwrite each other
# while their fingerprints stay "fresh"; always forget the library's artifacts when the source path changes
rm -rf target/release/.fingerprint/cardano-serialization-lib-* target/release/deps/libcardano_serialization_lib* target/release/deps/cardano_serialization_lib*
sed -i "s#path = \"[^\"]*\", features = \\[\"verif-hooks\"\\]#path = \"$wt/rust\", features = [\"verif-hooks\"]#" Cargo.toml
CARGO_NET_OFFLINE=true cargo build --release --offline --quiet 2> $root/work-build.log || { echo "TRY $id-$v build-failed"; tail -5 $root/work-build.log; }
out=$(VERIF_ROOT=$root ./target/release/vcheck run $prop quick 2>&1); rc=$?
echo "TRY $id-$v vs $prop: exit=$rc"
echo "$out" | grep -E "^failure" | cut -c1-400 | head -4
sed -i "s#path = \"[^\"]*\", features = \\[\"verif-hooks\"\\]#path = \"/repo/rust\", features = [\"verif-hooks\"]#" Cargo.toml
rm -rf $root/replays/$prop
rm -rf target/release/.fingerprint/cardano-serialization-lib-* target/release/deps/libcardano_serialization_lib* target/release/deps/cardano_serialization_lib*
(cd $root && git checkout -q -- evidence 2>/dev/null)
cd $wt && git checkout -q -- . && git clean -fdq rust/src
