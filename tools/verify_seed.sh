#!/bin/bash
# tools/verify_seed.sh <Cxx> <A|B>  — confirms a seeded change produced by a sub-agent:
#   suite green with the change, demonstration red with it and green without it.
# Works in the scratch worktree /tmp/seed/<Cxx> (moved to /repo's current main), writes /verif/seeded/<Cxx>-<v>/.
set -u
id=$1; v=$2
wt=/tmp/seed/$id; out=/tmp/seed/$id-out/$v
export CARGO_NET_OFFLINE=true CARGO_BUILD_JOBS=${JOBS:-6}
cd $wt || exit 2
git checkout -q -- . ; git clean -fdq rust/src ; git checkout -q --detach main || exit 2
cp -n /repo/rust/Cargo.lock rust/Cargo.lock 2>/dev/null
git apply --check $out/patch.diff || { echo "RESULT $id-$v patch-does-not-apply"; exit 1; }
git apply $out/patch.diff
suite=$(cd rust && cargo test --offline --no-fail-fast 2>&1 | grep -E "^test result" | head -1)
echo "suite with change: $suite"
git apply $out/demo.diff || { echo "RESULT $id-$v demo-does-not-apply"; git checkout -q -- .; git clean -fdq rust/src; exit 1; }
demo_with=$(cd rust && cargo test --offline seeded_ 2>&1 | grep -E "^test result" | head -1)
echo "demo with change: $demo_with"
git apply -R $out/patch.diff
demo_without=$(cd rust && cargo test --offline seeded_ 2>&1 | grep -E "^test result" | head -1)
echo "demo without change: $demo_without"
git checkout -q -- . ; git clean -fdq rust/src
ok=1
echo "$suite" | grep -q "532 passed; 0 failed" || ok=0
echo "$demo_with" | grep -q " 0 failed" && ok=0
echo "$demo_without" | grep -qE "[1-9][0-9]* passed; 0 failed" || ok=0
if [ $ok = 1 ]; then
  d=/verif/seeded/$id-$v; mkdir -p $d
  cp $out/patch.diff $out/demo.diff $out/notes.md $d/
  python3 - "$id" "$v" "$suite" "$demo_with" "$demo_without" <<'PY'
import json,sys
id,v,suite,dw,dwo=sys.argv[1:6]
d=f"/verif/seeded/{id}-{v}"
notes=open(d+"/notes.md").read()
meta={"property":id,"variant":v,"source":"fresh sub-agent given only the property text and a scratch worktree",
 "confirmed_by":"tools/verify_seed.sh in scratch worktree /tmp/seed/"+id+" at /repo main",
 "suite_with_change":suite,"demo_with_change":dw,"demo_without_change":dwo,
 "needs_to_manifest":"see notes.md","detected_by":"(filled in by tools/run_seeded.sh)"}
json.dump(meta,open(d+"/meta.json","w"),indent=1)
PY
  echo "RESULT $id-$v confirmed"
else
  echo "RESULT $id-$v NOT-confirmed"
fi
